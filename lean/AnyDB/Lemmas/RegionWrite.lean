import AnyDB.Lemmas.RegionView
namespace AnyDB.C01r
open AnyDB Conc Db C02r Mem

/-! ## the reference write, pointwise -/

theorem oob_some (a n : Nat) : Db.outOfBounds (some a) n = false ↔ a ≤ n := by
  unfold Db.outOfBounds; simp

theorem refWrite_length (old : List UInt8) (at_ : Option Nat) (trunc : Bool) (d : List UInt8) (h : Db.outOfBounds at_ old.length = false) :
    (refWrite old at_ trunc d).length = Db.newLenOf at_ trunc old.length d.length := by
  unfold refWrite Db.newLenOf
  cases at_ with
  | none => cases trunc <;> simp
  | some a =>
    have ha : a ≤ old.length := (oob_some _ _).mp h
    cases trunc <;> simp <;> omega

/-- the reference write with an explicit offset `wo ≤ |old|` -/
theorem splice_get (old d tail : List UInt8) (wo i : Nat) (hwo : wo ≤ old.length) :
    (old.take wo ++ d ++ tail)[i]? =
      if i < wo then old[i]? else if i < wo + d.length then d[i - wo]? else tail[i - wo - d.length]? := by
  have hl : (List.take wo old).length = wo := by simp; omega
  by_cases h1 : i < wo
  · rw [if_pos h1, List.append_assoc, List.getElem?_append_left (by omega)]
    simp [List.getElem?_take, h1]
  · rw [if_neg h1]
    by_cases h2 : i < wo + d.length
    · rw [if_pos h2, List.append_assoc, List.getElem?_append_right (by omega), hl, List.getElem?_append_left (by omega)]
    · rw [if_neg h2, List.getElem?_append_right (by simp; omega)]
      have : (List.take wo old ++ d).length = wo + d.length := by simp; omega
      rw [this]; congr 1; omega

theorem refWrite_get (old : List UInt8) (at_ : Option Nat) (trunc : Bool) (d : List UInt8) (h : Db.outOfBounds at_ old.length = false)
    (i : Nat) (hi : i < Db.newLenOf at_ trunc old.length d.length) :
    (refWrite old at_ trunc d)[i]? =
      if at_.getD old.length ≤ i ∧ i < at_.getD old.length + d.length then d[i - at_.getD old.length]? else old[i]? := by
  have hwo : at_.getD old.length ≤ old.length := by
    cases at_ with
    | none => simp
    | some a => exact (oob_some _ _).mp h
  unfold refWrite
  simp only []
  rw [splice_get _ _ _ _ _ hwo]
  by_cases h1 : i < at_.getD old.length
  · have : ¬(at_.getD old.length ≤ i ∧ i < at_.getD old.length + d.length) := by omega
    rw [if_pos h1, if_neg this]
  · rw [if_neg h1]
    by_cases h2 : i < at_.getD old.length + d.length
    · have : at_.getD old.length ≤ i ∧ i < at_.getD old.length + d.length := by omega
      rw [if_pos h2, if_pos this]
    · have : ¬(at_.getD old.length ≤ i ∧ i < at_.getD old.length + d.length) := by omega
      rw [if_neg h2, if_neg this]
      cases trunc with
      | true =>
        exfalso
        unfold Db.newLenOf at hi
        cases at_ with
        | none => simp at hi h2; omega
        | some a => simp at hi h2; omega
      | false =>
        simp only [Bool.false_eq_true, if_false, List.getElem?_drop]
        congr 1; omega

/-- what `Rel` says about a live slot -/
theorem rel_get (s : Db) (r : Ref) (idx : Nat) (sl : Slot) (h : Rel s r) (hs : s.slot? idx = some sl) :
    ∃ e, r[idx]?.join = some e ∧ e.1 = sl.md.id ∧ e.2.length = sl.md.len ∧ ∀ i, i < sl.md.len → s.mem.get? (sl.md.start + i) = e.2[i]? := by
  have h2 := h.2 idx
  unfold viewAt at h2
  rw [hs] at h2
  cases he : r[idx]?.join with
  | none => rw [he] at h2; simp at h2
  | some e =>
    rw [he] at h2
    simp only [Option.map_some, liftE, Option.some.injEq, Prod.mk.injEq] at h2
    have hl : e.2.length = sl.md.len := by
      have := congrArg List.length h2.2; simpa [read_length] using this.symm
    refine ⟨e, rfl, h2.1.symm, hl, fun i hi => ?_⟩
    have := congrArg (fun l => l[i]?) h2.2
    simp only [read_getElem?, hi, if_true, List.getElem?_map] at this
    have hi' : i < e.2.length := by omega
    rw [List.getElem?_eq_getElem hi'] at this ⊢
    simpa using this

theorem slot_set_ne (s s' : Db) (idx j : Nat) (o : Option Slot) (h : s'.slots = s.slots.set idx o) (hj : j ≠ idx) : s'.slot? j = s.slot? j := by
  unfold Db.slot?; rw [h, List.getElem?_set_ne (Ne.symm hj)]

theorem slot_set_eq (s s' : Db) (idx : Nat) (new : Slot) (h : s'.slots = s.slots.set idx (some new)) (hi : idx < s.slots.length) :
    s'.slot? idx = some new := by
  unfold Db.slot?; rw [h, List.getElem?_set_self hi]; rfl

theorem slot_lt (s : Db) (idx : Nat) (sl : Slot) (h : s.slot? idx = some sl) : idx < s.slots.length := by
  have := (slot_iff s idx sl).mp h
  rw [List.getElem?_eq_some_iff] at this
  exact this.1

/-- the common conclusion of the four placement paths of `write_with` -/
theorem rel_write_generic (s s' : Db) (r : Ref) (idx : Nat) (sl new : Slot) (d : List UInt8) (at_ : Option Nat) (trunc : Bool)
    (hrel : Rel s r) (hinv : RInv s) (hlay' : LInv s') (hs : s.slot? idx = some sl)
    (hoob : Db.outOfBounds at_ sl.md.len = false)
    (hslots : s'.slots = s.slots.set idx (some new))
    (hid : new.md.id = sl.md.id) (hnl : new.md.len = Db.newLenOf at_ trunc sl.md.len d.length)
    (hres : new.md.len ≤ new.md.reserved) (hsz : new.md.start + new.md.len ≤ s'.mem.size)
    (hf : MemFrame s.mem s'.mem new.md.start new.md.reserved)
    (hnewW : ∀ i, at_.getD sl.md.len ≤ i → i < at_.getD sl.md.len + d.length → s'.mem.get? (new.md.start + i) = d[i - at_.getD sl.md.len]?)
    (hnewO : ∀ i, i < sl.md.len → i < new.md.len → ¬(at_.getD sl.md.len ≤ i ∧ i < at_.getD sl.md.len + d.length) →
      s'.mem.get? (new.md.start + i) = s.mem.get? (sl.md.start + i)) :
    ∃ e, r[idx]?.join = some e ∧ Rel s' (r.set idx (some (e.1, refWrite e.2 at_ trunc d))) ∧ RInv s' := by
  obtain ⟨e, he, e1, e2, e3⟩ := rel_get s r idx sl hrel hs
  have hidx := slot_lt s idx sl hs
  have hnewslot := slot_set_eq s s' idx new hslots hidx
  refine ⟨e, he, ⟨by rw [List.length_set, hrel.1, hslots, List.length_set], fun j => ?_⟩, ⟨hlay', fun j slj hj => ?_⟩⟩
  · by_cases hj : j = idx
    · subst hj
      rw [List.getElem?_set_self (by rw [hrel.1]; exact hidx)]
      unfold viewAt
      rw [hnewslot]
      simp only [Option.map_some, Option.join_some, liftE, Option.some.injEq, Prod.mk.injEq]
      refine ⟨by rw [hid, e1], ?_⟩
      rw [← e2] at hoob hnl
      apply List.ext_getElem?
      intro i
      rw [read_getElem?, List.getElem?_map]
      by_cases hi : i < new.md.len
      · rw [if_pos hi]
        have hg := refWrite_get e.2 at_ trunc d hoob i (by rw [← hnl]; exact hi)
        have hlt : i < (refWrite e.2 at_ trunc d).length := by rw [refWrite_length _ _ _ _ hoob, ← hnl]; exact hi
        rw [e2] at hg
        have hstep : s'.mem.get? (new.md.start + i) = (refWrite e.2 at_ trunc d)[i]? := by
          rw [hg]
          split
          · rename_i hw
            exact hnewW i hw.1 hw.2
          · rename_i hw
            have hil : i < sl.md.len := by
              rw [hnl, e2] at hi
              unfold Db.newLenOf at hi
              cases at_ with
              | none => simp at hi hw; omega
              | some a =>
                have ha := (oob_some _ _).mp hoob
                cases trunc <;> simp at hi hw <;> omega
            rw [hnewO i hil hi hw]
            exact e3 i hil
        rw [hstep, List.getElem?_eq_getElem hlt]
        rfl
      · rw [if_neg hi]
        have : (refWrite e.2 at_ trunc d).length ≤ i := by rw [refWrite_length _ _ _ _ hoob, ← hnl]; omega
        rw [List.getElem?_eq_none this]; rfl
    · rw [List.getElem?_set_ne (Ne.symm hj), ← hrel.2 j]
      have hsj := slot_set_ne s s' idx j _ hslots hj
      cases hcj : s.slot? j with
      | none => unfold viewAt; rw [hsj, hcj]; rfl
      | some slj =>
        have hsj' : s'.slot? j = some slj := by rw [hsj, hcj]
        have hap := slots_apart s' hlay' j idx slj new hj hsj' hnewslot
        exact other_unchanged s s' j slj _ _ hcj hsj' (hinv.bnd j slj hcj) hf hap
  · by_cases hjx : j = idx
    · subst hjx
      rw [hnewslot] at hj
      cases hj
      exact ⟨hres, fun _ => hsz⟩
    · rw [slot_set_ne s s' idx j _ hslots hjx] at hj
      have := hinv.bnd j slj hj
      exact ⟨this.1, by have := hf.1; omega⟩

end AnyDB.C01r
