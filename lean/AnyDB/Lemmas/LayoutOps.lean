import AnyDB.Lemmas.LayoutInv

/-!
Operations of the rawdb model against the layout invariant, part 1: the operations that leave the layout view alone
(`Same`: events, file growth, data writes and copies, metadata-only slot updates, truncate, rename, the fitting write,
region flush, hole punching) and removal, retain, flush (promotion of pending holes) and compact.
-/
namespace AnyDB.C02r
open AnyDB Conc Db

/-! ## operations that leave the layout view alone -/

/-- same layout view -/
def Same (s s' : Db) : Prop :=
  vs s' = vs s ∧ s'.regions = s.regions ∧ s'.reserved = s.reserved ∧ s'.holes = s.holes ∧ s'.pending = s.pending

theorem Same.refl (s : Db) : Same s s := ⟨rfl, rfl, rfl, rfl, rfl⟩
theorem Same.trans {a b c : Db} (h1 : Same a b) (h2 : Same b c) : Same a c :=
  ⟨h2.1.trans h1.1, h2.2.1.trans h1.2.1, h2.2.2.1.trans h1.2.2.1, h2.2.2.2.1.trans h1.2.2.2.1, h2.2.2.2.2.trans h1.2.2.2.2⟩
theorem Same.linv {s s' : Db} (h : Same s s') (hi : LInv s) : LInv s' :=
  linv_congr s s' h.1 h.2.1 h.2.2.1 h.2.2.2.1 h.2.2.2.2 hi

theorem same_emit (s : Db) (e : Event) : Same s (s.emit e) := ⟨rfl, rfl, rfl, rfl, rfl⟩
theorem same_setMinLen (s : Db) (n : Nat) : Same s (s.setMinLen n) := by
  unfold Db.setMinLen; simp only []; split <;> exact ⟨rfl, rfl, rfl, rfl, rfl⟩
theorem same_regionsSetMinSlots (s : Db) (n : Nat) : Same s (s.regionsSetMinSlots n) := by
  unfold Db.regionsSetMinSlots; split <;> exact ⟨rfl, rfl, rfl, rfl, rfl⟩
theorem same_setMinRegions (s : Db) (n : Nat) : Same s (s.setMinRegions n) := by
  unfold Db.setMinRegions; exact (same_regionsSetMinSlots s n).trans (same_setMinLen _ _)
theorem same_dataWrite (s s' : Db) (off : Nat) (d : List UInt8) (h : s.dataWrite off d = some s') : Same s s' := by
  unfold Db.dataWrite at h
  split at h
  · cases h; exact ⟨rfl, rfl, rfl, rfl, rfl⟩
  · cases h

theorem same_dataCopy (s s' : Db) (a b n : Nat) (h : s.dataCopy a b n = .ok s') : Same s s' := by
  unfold Db.dataCopy at h
  split at h
  · cases h; exact Same.refl s
  · split at h
    · cases h
    · split at h
      · cases h
      · split at h
        · rename_i hw; cases h; exact same_dataWrite _ _ _ _ hw
        · cases h

/-- replacing a live slot by one with the same `(start, reserved)` -/
theorem vs_set_same (slots : List (Option Slot)) (idx : Nat) (old new : Slot) (h : slots[idx]? = some (some old))
    (he : extOf new = extOf old) :
    (slots.set idx (some new)).map (fun o => o.map extOf) = slots.map (fun o => o.map extOf) := by
  induction slots generalizing idx with
  | nil => simp at h
  | cons a t ih =>
    cases idx with
    | zero => simp at h; subst h; simp [he]
    | succ k => simp at h; simp only [List.set_cons_succ, List.map_cons]; rw [ih k h]

theorem same_setSlot (s : Db) (idx : Nat) (old new : Slot) (h : s.slot? idx = some old) (he : extOf new = extOf old) :
    Same s (s.setSlot idx (some new)) := by
  refine ⟨?_, rfl, rfl, rfl, rfl⟩
  unfold vs Db.setSlot
  exact vs_set_same s.slots idx old new ((slot_iff s idx old).mp h) he

theorem same_writeIfDirty (s : Db) (idx : Nat) (old sl : Slot) (h : s.slot? idx = some old) (he : extOf sl = extOf old) :
    Same s (s.writeIfDirty idx sl) := by
  unfold Db.writeIfDirty
  split
  · refine ⟨?_, rfl, rfl, rfl, rfl⟩
    unfold vs
    exact vs_set_same s.slots idx old _ ((slot_iff s idx old).mp h) (by simpa [extOf] using he)
  · exact same_setSlot s idx old sl h he

theorem extOf_metaSetLen (sl : Slot) (n : Nat) : extOf (metaSetLen sl n) = extOf sl := by
  unfold metaSetLen; split <;> rfl
theorem extOf_metaSetId (sl : Slot) (id : RegionId) : extOf (metaSetId sl id) = extOf sl := by
  unfold metaSetId; split <;> rfl
theorem extOf_markDirty (sl : Slot) (a b : Nat) : extOf (markDirty sl a b) = extOf sl := rfl

/-- a state with the same layout view sees the same slots' extents -/
theorem same_slot (s s' : Db) (h : Same s s') (idx : Nat) (sl : Slot) (hs : s.slot? idx = some sl) :
    ∃ sl', s'.slot? idx = some sl' ∧ extOf sl' = extOf sl := by
  have := (vs_get s idx (extOf sl)).mpr ⟨sl, hs, rfl⟩
  rw [← h.1] at this
  exact (vs_get s' idx _).mp this


/-! ### metadata-only operations -/

theorem same_truncate (s : Db) (idx n : Nat) : Same s (s.truncate idx n).1 := by
  unfold Db.truncate
  cases hs : s.slot? idx with
  | none => exact Same.refl s
  | some sl =>
    simp only
    split
    · exact Same.refl s
    · split
      · exact Same.refl s
      · exact same_writeIfDirty s idx sl _ hs (extOf_metaSetLen sl n)

theorem same_rename (s : Db) (idx : Nat) (id : RegionId) : Same s (s.rename idx id).1 := by
  unfold Db.rename
  cases hs : s.slot? idx with
  | none => exact Same.refl s
  | some sl =>
    simp only
    split
    · exact Same.refl s
    · split
      · exact Same.refl s
      · exact same_writeIfDirty s idx sl _ hs (extOf_metaSetId sl id)

theorem same_writeFits (s : Db) (idx : Nat) (sl : Slot) (d : List UInt8) (wo nl : Nat) (hs : s.slot? idx = some sl) :
    Same s (s.writeFits idx sl d wo nl).1 := by
  unfold Db.writeFits
  cases hw : s.dataWrite (sl.md.start + wo) d with
  | none => exact Same.refl s
  | some s1 =>
    simp only
    have h1 := same_dataWrite s s1 _ _ hw
    obtain ⟨old, ho, he⟩ := same_slot s s1 h1 idx sl hs
    split
    · exact h1.trans (same_writeIfDirty s1 idx old _ ho (by rw [extOf_metaSetLen, extOf_markDirty, he]))
    · exact h1.trans (same_setSlot s1 idx old _ ho (by rw [extOf_markDirty, he]))

theorem same_of_set (s s' : Db) (idx : Nat) (old Y : Slot) (hs : s.slot? idx = some old) (hY : extOf Y = extOf old)
    (h1 : s'.slots = s.slots.set idx (some Y)) (h2 : s'.regions = s.regions) (h3 : s'.reserved = s.reserved)
    (h4 : s'.holes = s.holes) (h5 : s'.pending = s.pending) : Same s s' := by
  refine ⟨?_, h2, h3, h4, h5⟩
  unfold vs; rw [h1]
  exact vs_set_same s.slots idx old Y ((slot_iff s idx old).mp hs) hY

theorem same_regionFlush (s : Db) (idx : Nat) : Same s (s.regionFlush idx).1 := by
  unfold Db.regionFlush
  cases hs : s.slot? idx with
  | none => exact Same.refl s
  | some sl =>
    simp only
    by_cases hb : sl.dmin < sl.dmax
    · simp only [hb, if_true, Option.isSome_some]
      cases hst : sl.st with
      | needsWrite =>
        exact same_of_set s _ idx sl { sl with dmin := USIZE_MAX, dmax := 0 } hs rfl (by simp [Db.setSlot, Db.emit, hst]) rfl rfl rfl rfl
      | clean =>
        exact same_of_set s _ idx sl { sl with dmin := USIZE_MAX, dmax := 0 } hs rfl (by simp [Db.setSlot, Db.emit, hst]) rfl rfl rfl rfl
      | needsFlush =>
        exact same_of_set s _ idx sl { sl with dmin := USIZE_MAX, dmax := 0, st := .clean } hs rfl
          (by simp [Db.setSlot, Db.emit, List.set_set, hst]) rfl rfl rfl rfl
    · simp only [hb, if_false, Option.isSome_none, Bool.false_eq_true]
      cases hst : sl.st with
      | needsWrite => exact same_of_set s _ idx sl sl hs rfl (by simp [Db.setSlot, Db.emit, hst]) rfl rfl rfl rfl
      | clean => exact same_of_set s _ idx sl sl hs rfl (by simp [Db.setSlot, Db.emit, hst]) rfl rfl rfl rfl
      | needsFlush =>
        exact same_of_set s _ idx sl { sl with st := .clean } hs rfl (by simp [Db.setSlot, Db.emit, List.set_set, hst]) rfl rfl rfl rfl


/-! ### removal -/

theorem cnt_sortedInsert (l : List E) (k v : Nat) (x : Nat) (hk : ∀ e ∈ l, e.1 ≠ k) :
    cnt (sortedInsert l k v) x = cnt l x + ind (k, v) x := by
  induction l with
  | nil => simp [sortedInsert, cnt, ind]
  | cons a t ih =>
    obtain ⟨a1, a2⟩ := a
    have hne : a1 ≠ k := hk (a1, a2) (List.mem_cons_self ..)
    simp only [sortedInsert]
    split
    · simp only [cnt_cons]; omega
    · split
      · rename_i heq; exact absurd heq.symm hne
      · simp only [cnt_cons]
        rw [ih (fun e he => hk e (List.mem_cons_of_mem _ he))]; omega

theorem mem_sortedInsert (l : List E) (k v : Nat) (e : E) (h : e ∈ sortedInsert l k v) : e = (k, v) ∨ e ∈ l := by
  induction l with
  | nil => simp [sortedInsert] at h; exact Or.inl h
  | cons a t ih =>
    obtain ⟨a1, a2⟩ := a
    simp only [sortedInsert] at h
    split at h
    · rcases List.mem_cons.mp h with h1 | h1
      · exact Or.inl h1
      · exact Or.inr h1
    · split at h
      · rcases List.mem_cons.mp h with h1 | h1
        · exact Or.inl h1
        · exact Or.inr (List.mem_cons_of_mem _ h1)
      · rcases List.mem_cons.mp h with h1 | h1
        · exact Or.inr (by rw [h1]; exact List.mem_cons_self ..)
        · rcases ih h1 with h2 | h2
          · exact Or.inl h2
          · exact Or.inr (List.mem_cons_of_mem _ h2)

/-- two different extents of a state that satisfy the invariant do not start at the same byte -/
theorem starts_differ (c : List E) (ho : One c) (hp : Pos c) (a b : E) (ha : a ∈ c) (hb : b ∈ c) (hne : a ≠ b) : a.1 ≠ b.1 := by
  intro heq
  have h2 := two_cover c a b a.1 ha hb hne
  have h1 := ho a.1
  have pa := hp a ha
  have pb := hp b hb
  simp only [ind] at h2
  have c1 : a.1 ≤ a.1 ∧ a.1 < a.1 + a.2 := by omega
  have c2 : b.1 ≤ a.1 ∧ a.1 < b.1 + b.2 := by omega
  simp only [c1, c2, and_self, if_true] at h2
  omega

theorem ext_mem (s : Db) (idx : Nat) (e : E) (h : (vs s)[idx]? = some (some e)) : e ∈ claimedDb s := by
  obtain ⟨sl, hs, he⟩ := (vs_get s idx e).mp h
  exact (mem_claimed s e).mpr (Or.inl ((mem_exts s.slots e).mpr ⟨idx, sl, (slot_iff s idx sl).mp hs, he⟩))

theorem two_slots (slots : List (Option Slot)) (i j : Nat) (a b : Slot) (x : Nat) (hij : i ≠ j)
    (hi : slots[i]? = some (some a)) (hj : slots[j]? = some (some b)) :
    ind (extOf a) x + ind (extOf b) x ≤ cnt (exts slots) x := by
  have h1 := cnt_exts_set_none slots i a x hi
  have hj' : (slots.set i none)[j]? = some (some b) := by
    rw [List.getElem?_set_ne hij]; exact hj
  have h2 := cnt_exts_set_none (slots.set i none) j b x hj'
  omega

/-- under the invariant, two live slots with the same start are the same slot -/
theorem slot_of_start (s : Db) (h : LInv s) (i j st r1 r2 : Nat) (hi : (vs s)[i]? = some (some (st, r1)))
    (hj : (vs s)[j]? = some (some (st, r2))) : i = j := by
  by_cases hij : i = j
  · exact hij
  · exfalso
    obtain ⟨a, ha, ea⟩ := (vs_get s i _).mp hi
    obtain ⟨b, hb, eb⟩ := (vs_get s j _).mp hj
    have h2 := two_slots s.slots i j a b st hij ((slot_iff s i a).mp ha) ((slot_iff s j b).mp hb)
    have pa := h.pos _ (ext_mem s i _ hi)
    have pb := h.pos _ (ext_mem s j _ hj)
    have hx := h.one st
    unfold claimedDb at hx
    simp only [cnt_append] at hx
    rw [ea, eb] at h2
    simp only [ind] at h2
    simp only at pa pb
    have c1 : st ≤ st ∧ st < st + r1 := by omega
    have c2 : st ≤ st ∧ st < st + r2 := by omega
    simp only [c1, c2, and_self, if_true] at h2
    omega

/-- the start map answers a live slot's start with that slot -/
theorem regions_get (s : Db) (h : LInv s) (idx st r : Nat) (hv : (vs s)[idx]? = some (some (st, r))) :
    alGet s.regions st = some idx := by
  have hm := h.reg1 idx st r hv
  unfold alGet
  cases hf : s.regions.find? (fun a => a.1 == st) with
  | none =>
    have := List.find?_eq_none.mp hf (st, idx) hm
    simp at this
  | some a =>
    have hma := List.mem_of_find?_eq_some hf
    have hpa := List.find?_some hf
    simp at hpa
    obtain ⟨a1, a2⟩ := a
    simp only at hpa
    subst hpa
    obtain ⟨r', hv'⟩ := h.reg2 a1 a2 hma
    have := slot_of_start s h a2 idx a1 r' r hv' hv
    simp [this]


theorem cross_start (s : Db) (h : LInv s) (e p : E) (he : e ∈ exts s.slots) (hp : p ∈ s.pending ∨ p ∈ s.holes ∨ p ∈ s.reserved) :
    p.1 ≠ e.1 := by
  intro heq
  have hx := h.one e.1
  unfold claimedDb at hx
  simp only [cnt_append] at hx
  have pe := h.pos e ((mem_claimed s e).mpr (Or.inl he))
  have h1 := ind_le_cnt _ e e.1 he
  have ce : e.1 ≤ e.1 ∧ e.1 < e.1 + e.2 := by omega
  simp only [ind, ce, and_self, if_true] at h1
  rcases hp with hp | hp | hp
  · have pp := h.pos p ((mem_claimed s p).mpr (Or.inr (Or.inr (Or.inr hp))))
    have h2 := ind_le_cnt _ p e.1 hp
    have cp : p.1 ≤ e.1 ∧ e.1 < p.1 + p.2 := by omega
    simp only [ind, cp, and_self, if_true] at h2
    omega
  · have pp := h.pos p ((mem_claimed s p).mpr (Or.inr (Or.inr (Or.inl hp))))
    have h2 := ind_le_cnt _ p e.1 hp
    have cp : p.1 ≤ e.1 ∧ e.1 < p.1 + p.2 := by omega
    simp only [ind, cp, and_self, if_true] at h2
    omega
  · have pp := h.pos p ((mem_claimed s p).mpr (Or.inr (Or.inl hp)))
    have h2 := ind_le_cnt _ p e.1 hp
    have cp : p.1 ≤ e.1 ∧ e.1 < p.1 + p.2 := by omega
    simp only [ind, cp, and_self, if_true] at h2
    omega

theorem vs_setSlot (s : Db) (idx : Nat) (o : Option Slot) : vs (s.setSlot idx o) = (vs s).set idx (o.map extOf) := by
  unfold vs Db.setSlot; simp [List.map_set]

/-- the state after a region left the layout: slot gone, start unregistered, extent pending -/
theorem linv_removed (s f : Db) (h : LInv s) (idx : Nat) (sl : Slot) (hs : s.slot? idx = some sl)
    (f1 : f.slots = s.slots.set idx none) (f2 : f.regions = alErase s.regions sl.md.start)
    (f3 : f.pending = sortedInsert s.pending sl.md.start sl.md.reserved) (f4 : f.reserved = s.reserved) (f5 : f.holes = s.holes) :
    LInv f := by
  have hsl := (slot_iff s idx sl).mp hs
  have hv : (vs s)[idx]? = some (some (sl.md.start, sl.md.reserved)) := (vs_get s idx _).mpr ⟨sl, hs, rfl⟩
  have hmem : extOf sl ∈ exts s.slots := (mem_exts s.slots _).mpr ⟨idx, sl, hsl, rfl⟩
  have hvf : vs f = (vs s).set idx none := by unfold vs; rw [f1]; simp [List.map_set]
  have hpend : ∀ e ∈ s.pending, e.1 ≠ sl.md.start := fun e he => cross_start s h (extOf sl) e hmem (Or.inl he)
  have hcl : ∀ x, cnt (claimedDb f) x = cnt (claimedDb s) x := by
    intro x
    unfold claimedDb
    simp only [cnt_append, f1, f3, f4, f5]
    have := cnt_exts_set_none s.slots idx sl x hsl
    have := cnt_sortedInsert s.pending sl.md.start sl.md.reserved x hpend
    simp only [extOf] at *
    omega
  refine ⟨fun x => by rw [hcl x]; exact h.one x, ?_, ?_, ?_⟩
  · intro e he
    rcases (mem_claimed f e).mp he with h1 | h1 | h1 | h1
    · obtain ⟨j, slj, hj, rfl⟩ := (mem_exts f.slots e).mp h1
      rw [f1] at hj
      have hji : j ≠ idx := by
        intro e2; subst e2
        rw [List.getElem?_set] at hj
        split at hj
        · split at hj <;> simp at hj
        · exact absurd rfl ‹¬(j = j)›
      rw [List.getElem?_set_ne (Ne.symm hji)] at hj
      exact h.pos _ ((mem_claimed s _).mpr (Or.inl ((mem_exts s.slots _).mpr ⟨j, slj, hj, rfl⟩)))
    · rw [f4] at h1; exact h.pos e ((mem_claimed s e).mpr (Or.inr (Or.inl h1)))
    · rw [f5] at h1; exact h.pos e ((mem_claimed s e).mpr (Or.inr (Or.inr (Or.inl h1))))
    · rw [f3] at h1
      rcases mem_sortedInsert _ _ _ _ h1 with h2 | h2
      · rw [h2]; exact h.pos _ ((mem_claimed s _).mpr (Or.inl hmem))
      · exact h.pos e ((mem_claimed s e).mpr (Or.inr (Or.inr (Or.inr h2))))
  · intro i st r hi
    rw [hvf] at hi
    have hii : i ≠ idx := by
      intro e2; subst e2
      rw [List.getElem?_set] at hi
      split at hi
      · split at hi <;> simp at hi
      · exact absurd rfl ‹¬(i = i)›
    rw [List.getElem?_set_ne (Ne.symm hii)] at hi
    have hreg := h.reg1 i st r hi
    rw [f2]
    refine mem_alErase.mpr ⟨hreg, ?_⟩
    intro hst
    simp only at hst
    subst hst
    exact hii (slot_of_start s h i idx _ r _ hi hv)
  · intro st i hm
    rw [f2] at hm
    obtain ⟨hm1, hm2⟩ := mem_alErase.mp hm
    obtain ⟨r, hr⟩ := h.reg2 st i hm1
    have hii : i ≠ idx := by
      intro e2; subst e2
      rw [hv] at hr
      simp only [Option.some.injEq, Prod.mk.injEq] at hr
      exact hm2 hr.1.symm
    exact ⟨r, by rw [hvf, List.getElem?_set_ne (Ne.symm hii)]; exact hr⟩


theorem linv_remove (s : Db) (idx : Nat) (extra : Bool) (h : LInv s) : LInv (s.remove idx extra).1 := by
  unfold Db.remove
  cases hs : s.slot? idx with
  | none => exact h
  | some sl =>
    simp only
    split
    · exact h
    · have hv : (vs s)[idx]? = some (some (sl.md.start, sl.md.reserved)) := (vs_get s idx _).mpr ⟨sl, hs, rfl⟩
      have hg := regions_get s h idx _ _ hv
      unfold Db.layoutRemoveRegion
      simp only [hg, if_true, Bool.not_true, Bool.false_eq_true, if_false]
      exact linv_removed s _ h idx sl hs (by simp [Db.setSlot]) rfl rfl rfl rfl

theorem linv_removeId (s : Db) (id : RegionId) (extra : Bool) (h : LInv s) : LInv (s.removeId id extra).1 := by
  unfold Db.removeId
  split
  · exact h
  · exact linv_remove s _ extra h

theorem linv_retain (s : Db) (keep : List RegionId) (h : LInv s) : LInv (s.retain keep).1 := by
  unfold Db.retain
  generalize (List.range s.slots.length).filter _ = victims
  suffices hh : ∀ (acc : Db × Out), LInv acc.1 →
      LInv (victims.foldl (fun (acc : Db × Out) i => match acc.2 with | .ok => acc.1.remove i false | _ => acc) acc).1 from hh (s, .ok) h
  induction victims with
  | nil => intro acc ha; exact ha
  | cons v t ih =>
    intro acc ha
    simp only [List.foldl_cons]
    apply ih
    split
    · exact linv_remove acc.1 v false ha
    · exact ha


/-! ### flush: pending holes are promoted -/

theorem same_takeAllDirty (s : Db) : Same s s.takeAllDirty := by
  refine ⟨?_, rfl, rfl, rfl, rfl⟩
  unfold vs Db.takeAllDirty
  simp only [List.map_map]
  apply List.map_congr_left
  intro o _
  cases o with
  | none => rfl
  | some sl => simp only [Function.comp, Option.map_some]; split <;> rfl

theorem same_markCleanStep (s : Db) (x : Nat × Slot × Option (Nat × Nat)) : Same s (s.markCleanStep x) := by
  unfold Db.markCleanStep
  cases hs : s.slot? x.1 with
  | none => exact Same.refl s
  | some sl => exact same_setSlot s x.1 sl _ hs rfl

theorem same_markCleanFold (l : List (Nat × Slot × Option (Nat × Nat))) (s : Db) : Same s (l.foldl Db.markCleanStep s) := by
  induction l generalizing s with
  | nil => exact Same.refl s
  | cons a t ih => simp only [List.foldl_cons]; exact (same_markCleanStep s a).trans (ih _)

theorem linv_promote (s : Db) (h : LInv s) : LInv { s with holes := promote s.holes s.pending, pending := [] } := by
  have ph : Pos s.holes := fun e he => h.pos e ((mem_claimed s e).mpr (Or.inr (Or.inr (Or.inl he))))
  have pp : Pos s.pending := fun e he => h.pos e ((mem_claimed s e).mpr (Or.inr (Or.inr (Or.inr he))))
  have hsum : ∀ x, cnt s.holes x + cnt s.pending x ≤ 1 := by
    intro x; have := h.one x; unfold claimedDb at this; simp only [cnt_append] at this; omega
  obtain ⟨q1, q2⟩ := promote_cnt s.holes s.pending ph pp hsum
  refine ⟨?_, ?_, h.reg1, h.reg2⟩
  · intro x
    have := h.one x
    unfold claimedDb at this ⊢
    simp only [cnt_append, cnt] at this ⊢
    rw [q1 x]; omega
  · intro e he
    unfold claimedDb at he
    simp only [List.mem_append, List.not_mem_nil, or_false] at he
    rcases he with (h1 | h1) | h1
    · exact h.pos e ((mem_claimed s e).mpr (Or.inl h1))
    · exact h.pos e ((mem_claimed s e).mpr (Or.inr (Or.inl h1)))
    · exact q2 e h1

/-- the state `flush` reaches before it promotes the pending holes -/
def flushPre (s : Db) : Db :=
  let dirty := s.flushCandidates
  let s1 := s.takeAllDirty
  if dirty.isEmpty then
    (if s1.pending.isEmpty then s1 else (s1.emit (.flushAsyncAll .regions)).emit (.sync .regions))
  else
    let r := dirty.foldl (fun (acc : Nat × Nat) (x : Nat × Slot × Option (Nat × Nat)) =>
      match x.2.2 with
      | some (mn, mx) => (min acc.1 (x.2.1.md.start + mn), max acc.2 (x.2.1.md.start + mx))
      | none => acc) (USIZE_MAX, 0)
    let s2 := if r.1 < r.2 then s1.emit (.flushAsync .data r.1 (r.2 - r.1)) else s1
    dirty.foldl Db.markCleanStep (((s2.emit (.flushAsyncAll .regions)).emit (.sync .data)).emit (.sync .regions))

theorem flush_eq (s : Db) :
    s.flush.1 = { flushPre s with holes := promote (flushPre s).holes (flushPre s).pending, pending := [] } := by
  unfold Db.flush flushPre
  simp only []
  split <;> rfl

theorem same_flushPre (s : Db) : Same s (flushPre s) := by
  unfold flushPre
  simp only []
  have h0 := same_takeAllDirty s
  split
  · split
    · exact h0
    · exact h0.trans ((same_emit _ _).trans (same_emit _ _))
  · refine Same.trans ?_ (same_markCleanFold _ _)
    refine Same.trans ?_ ((same_emit _ _).trans ((same_emit _ _).trans (same_emit _ _)))
    split
    · exact h0.trans (same_emit _ _)
    · exact h0

theorem linv_flush (s : Db) (h : LInv s) : LInv s.flush.1 := by
  rw [flush_eq]
  exact linv_promote _ ((same_flushPre s).linv h)


/-! ### compact: flush, then hole punching (no layout change) -/

theorem same_punchIfData (acc : Db × Nat) (a b : Nat) : Same acc.1 (punchIfData acc a b).1 := by
  unfold punchIfData; split
  · exact ⟨rfl, rfl, rfl, rfl, rfl⟩
  · exact Same.refl _

theorem same_fold {β : Type} (l : List β) (f : Db × Nat → β → Db × Nat) (hf : ∀ acc x, Same acc.1 (f acc x).1) (acc : Db × Nat) :
    Same acc.1 (l.foldl f acc).1 := by
  induction l generalizing acc with
  | nil => exact Same.refl _
  | cons a t ih => simp only [List.foldl_cons]; exact (hf acc a).trans (ih _)

theorem same_punchHoles (s : Db) : Same s s.punchHoles := by
  unfold Db.punchHoles
  simp only []
  have h1 := same_fold (List.range s.slots.length)
    (fun (acc : Db × Nat) i => match acc.1.slot? i with
      | none => acc
      | some sl => if ceilPage sl.md.len < sl.md.reserved then punchIfData acc (sl.md.start + ceilPage sl.md.len) (sl.md.reserved - ceilPage sl.md.len) else acc)
    (by intro acc x; split
        · exact Same.refl _
        · split
          · exact same_punchIfData _ _ _
          · exact Same.refl _) (s, 0)
  have h2 := fun acc => same_fold (s.holes.foldl (fun l h => sortedInsert l h.1 h.2) [])
    (fun (acc : Db × Nat) (h : Nat × Nat) => punchIfData acc h.1 h.2) (fun acc x => same_punchIfData _ _ _) acc
  split
  · exact (h1.trans (h2 _)).trans (same_emit _ _)
  · exact h1.trans (h2 _)

theorem linv_compact (s : Db) (h : LInv s) : LInv s.compact.1 := by
  unfold Db.compact
  have hf := linv_flush s h
  generalize s.flush = r at hf
  obtain ⟨s1, o⟩ := r
  simp only at hf ⊢
  cases o <;> first | exact hf | exact (same_punchHoles s1).linv hf

end AnyDB.C02r
