import AnyDB.Lemmas.CrashKeepOps
namespace AnyDB.C05r
open AnyDB Conc Db C02r C01r Mem

/-! ## compact: only tails beyond the data and free extents are punched -/

theorem punchIfData_slots (acc : Db × Nat) (off len : Nat) : (punchIfData acc off len).1.slots = acc.1.slots := by
  unfold punchIfData; split <;> rfl

theorem keep_fold {β : Type} (j a b : Nat) (s : Db) (l : List β) (f : Db × Nat → β → Db × Nat) (P : β → Prop)
    (hf : ∀ acc x, P x → acc.1.slots = s.slots → Keep j a b acc.1 (f acc x).1 ∧ (f acc x).1.slots = s.slots)
    (hP : ∀ x ∈ l, P x) (acc : Db × Nat) (hk : acc.1.slots = s.slots) :
    Keep j a b acc.1 (l.foldl f acc).1 ∧ (l.foldl f acc).1.slots = s.slots := by
  induction l generalizing acc with
  | nil => exact ⟨Keep.refl _ _ _ _, hk⟩
  | cons x t ih =>
    simp only [List.foldl_cons]
    obtain ⟨k1, k2⟩ := hf acc x (hP x (List.mem_cons_self ..)) hk
    obtain ⟨k3, k4⟩ := ih (fun y hy => hP y (List.mem_cons_of_mem _ hy)) _ k2
    exact ⟨k1.trans k3, k4⟩

theorem keep_punchHoles (j : Nat) (s : Db) (hinv : RInv s) (slj : Slot) (hs : s.slot? j = some slj)
    (hcr : ceilPage slj.md.len ≤ slj.md.reserved) :
    Keep j slj.md.start (slj.md.start + ceilPage slj.md.len) s s.punchHoles := by
  have h1 := keep_fold j slj.md.start (slj.md.start + ceilPage slj.md.len) s (List.range s.slots.length)
    (fun (acc : Db × Nat) i => match acc.1.slot? i with
      | none => acc
      | some sl => if ceilPage sl.md.len < sl.md.reserved then punchIfData acc (sl.md.start + ceilPage sl.md.len) (sl.md.reserved - ceilPage sl.md.len) else acc)
    (fun _ => True)
    (by
      intro acc x _ hk
      have hsx : acc.1.slot? x = s.slot? x := by unfold Db.slot?; rw [hk]
      split
      · exact ⟨Keep.refl _ _ _ _, hk⟩
      · rename_i sl hsl
        split
        · rename_i hc
          rw [hsx] at hsl
          refine ⟨keep_punchIfData _ _ _ acc _ _ ?_, by rw [punchIfData_slots]; exact hk⟩
          by_cases hjx : j = x
          · subst hjx
            rw [hs] at hsl; cases hsl
            right; exact Nat.le_refl _
          · have hap := slots_apart s hinv.lay j x slj sl hjx hs hsl
            omega
        · exact ⟨Keep.refl _ _ _ _, hk⟩)
    (fun _ _ => trivial) (s, 0) rfl
  have h2 := fun acc hk => keep_fold j slj.md.start (slj.md.start + ceilPage slj.md.len) s (s.holes.foldl (fun l h => sortedInsert l h.1 h.2) [])
    (fun (acc : Db × Nat) (h : Nat × Nat) => punchIfData acc h.1 h.2) (fun e => e ∈ s.holes)
    (by
      intro acc e he hk
      refine ⟨keep_punchIfData _ _ _ acc _ _ ?_, by rw [punchIfData_slots]; exact hk⟩
      have hap := hole_apart s hinv.lay e he j slj hs
      omega)
    (by
      intro e he
      rcases mem_holesSorted s.holes e [] he with h | h
      · cases h
      · exact h) acc hk
  obtain ⟨k1, k2⟩ := h1
  obtain ⟨k3, _⟩ := h2 _ k2
  unfold Db.punchHoles
  simp only []
  split
  · exact (k1.trans k3).trans (keep_emit _ _ _ _ _ trivial)
  · exact k1.trans k3

end AnyDB.C05r
