import AnyDB.Lemmas.LayoutAcc
namespace AnyDB.C02r
open AnyDB Conc Db

/-! # page alignment of every extent, for every history -/

/-- start and size are multiples of the page size -/
def AlE (e : E) : Prop := e.1 % Gen.PAGE_SIZE = 0 ∧ e.2 % Gen.PAGE_SIZE = 0
def AlL (l : List E) : Prop := ∀ e ∈ l, AlE e
def Al (s : Db) : Prop := AlL (claimedDb s)

theorem al_parts (s : Db) : Al s ↔ AlL (exts s.slots) ∧ AlL s.reserved ∧ AlL s.holes ∧ AlL s.pending := by
  unfold Al AlL
  constructor
  · intro h
    exact ⟨fun e he => h e ((mem_claimed s e).mpr (Or.inl he)), fun e he => h e ((mem_claimed s e).mpr (Or.inr (Or.inl he))),
      fun e he => h e ((mem_claimed s e).mpr (Or.inr (Or.inr (Or.inl he)))), fun e he => h e ((mem_claimed s e).mpr (Or.inr (Or.inr (Or.inr he))))⟩
  · rintro ⟨h1, h2, h3, h4⟩ e he
    rcases (mem_claimed s e).mp he with h | h | h | h
    · exact h1 e h
    · exact h2 e h
    · exact h3 e h
    · exact h4 e h

theorem Same.al {s s' : Db} (h : Same s s') (ha : Al s) : Al s' := by
  unfold Al; rw [same_claimed s s' h]; exact ha

theorem al_init : Al Db.init := by
  intro e he; simp [claimedDb, exts, Db.init] at he

theorem alL_alErase (l : List E) (k : Nat) (h : AlL l) : AlL (alErase l k) :=
  fun e he => h e (List.mem_filter.mp he).1

theorem alL_sortedInsert (l : List E) (k v : Nat) (h : AlL l) (hk : AlE (k, v)) : AlL (sortedInsert l k v) := by
  intro e he
  rcases mem_sortedInsert l k v e he with h1 | h1
  · rw [h1]; exact hk
  · exact h e h1

theorem alL_append (a b : List E) (ha : AlL a) (hb : AlL b) : AlL (a ++ b) := by
  intro e he
  rcases List.mem_append.mp he with h | h
  · exact ha e h
  · exact hb e h

theorem alL_single (e : E) (h : AlE e) : AlL [e] := by
  intro x hx; simp at hx; rw [hx]; exact h

theorem alL_removeOrCompress (holes hs : List E) (start by_ : Nat) (h : AlL holes) (hb : by_ % Gen.PAGE_SIZE = 0)
    (hrc : removeOrCompress holes start by_ = .ok hs) : AlL hs := by
  unfold removeOrCompress at hrc
  cases hg : alGet holes start with
  | none => simp [hg] at hrc; rw [← hrc]; exact h
  | some size =>
    simp only [hg] at hrc
    have hm := h _ (mem_of_alGet holes start size hg)
    split at hrc
    · cases hrc; exact alL_alErase _ _ h
    · split at hrc
      · cases hrc
        refine alL_append _ _ (alL_alErase _ _ h) (alL_single _ ?_)
        unfold AlE at hm ⊢
        simp only [Gen.PAGE_SIZE] at *
        omega
      · cases hrc

theorem alL_promoteOne (hs : List E) (p : E) (h : AlL hs) (hp : AlE p) : AlL (promoteOne hs p) := by
  rw [promoteOne_eq]
  -- the left join
  have hl : AlL (joinLeft hs p).1 ∧ AlE ((joinLeft hs p).2.1, (joinLeft hs p).2.2) := by
    unfold joinLeft
    cases hph : prevHole hs p.1 with
    | none => exact ⟨h, hp⟩
    | some x =>
      simp only
      have hx := h x (mem_of_prevHole hs p.1 x hph)
      split
      · refine ⟨alL_alErase _ _ h, ?_⟩
        unfold AlE at *
        simp only [Gen.PAGE_SIZE] at *
        omega
      · exact ⟨h, hp⟩
  generalize joinLeft hs p = r1 at hl
  obtain ⟨hl1, hl2⟩ := hl
  unfold joinRight
  cases hg : alGet r1.1 (r1.2.1 + r1.2.2) with
  | none => exact alL_append _ _ hl1 (alL_single _ hl2)
  | some a =>
    simp only
    have hm := hl1 _ (mem_of_alGet r1.1 _ a hg)
    refine alL_append _ _ (alL_alErase _ _ hl1) (alL_single _ ?_)
    unfold AlE at *
    simp only [Gen.PAGE_SIZE] at *
    omega

theorem alL_promote (hs pending : List E) (h : AlL hs) (hp : AlL pending) : AlL (promote hs pending) := by
  unfold promote
  induction pending generalizing hs with
  | nil => exact h
  | cons p t ih =>
    simp only [List.foldl_cons]
    exact ih _ (alL_promoteOne hs p h (hp p (List.mem_cons_self ..))) (fun e he => hp e (List.mem_cons_of_mem _ he))

theorem alE_slot (s : Db) (ha : Al s) (idx : Nat) (sl : Slot) (hs : s.slot? idx = some sl) : AlE (sl.md.start, sl.md.reserved) :=
  ha _ ((mem_claimed s _).mpr (Or.inl ((mem_exts s.slots _).mpr ⟨idx, sl, (slot_iff s idx sl).mp hs, rfl⟩)))

/-- replacing slot `idx` by a slot with an aligned extent -/
theorem alL_exts_set (slots : List (Option Slot)) (idx : Nat) (o : Option Slot) (h : AlL (exts slots))
    (ho : ∀ sl, o = some sl → AlE (extOf sl)) : AlL (exts (slots.set idx o)) := by
  intro e he
  obtain ⟨j, slj, hj, rfl⟩ := (mem_exts _ e).mp he
  by_cases hji : j = idx
  · subst hji
    rw [List.getElem?_set] at hj
    split at hj
    · split at hj
      · simp at hj; exact ho slj hj
      · cases hj
    · exact absurd rfl ‹¬(j = j)›
  · rw [List.getElem?_set_ne (Ne.symm hji)] at hj
    exact h _ ((mem_exts slots _).mpr ⟨j, slj, hj, rfl⟩)


/-! ## the operations -/

theorem al_remove (s : Db) (idx : Nat) (extra : Bool) (h : LInv s) (ha : Al s) : Al (s.remove idx extra).1 := by
  unfold Db.remove
  cases hs : s.slot? idx with
  | none => exact ha
  | some sl =>
    simp only
    split
    · exact ha
    · have hv : (vs s)[idx]? = some (some (sl.md.start, sl.md.reserved)) := (vs_get s idx _).mpr ⟨sl, hs, rfl⟩
      have hg := regions_get s h idx _ _ hv
      unfold Db.layoutRemoveRegion
      simp only [hg, if_true, Bool.not_true, Bool.false_eq_true, if_false]
      obtain ⟨a1, a2, a3, a4⟩ := (al_parts s).mp ha
      refine (al_parts _).mpr ⟨?_, a2, a3, ?_⟩
      · exact alL_exts_set s.slots idx none a1 (fun _ h => by cases h)
      · exact alL_sortedInsert _ _ _ a4 (alE_slot s ha idx sl hs)

theorem al_removeId (s : Db) (id : RegionId) (extra : Bool) (h : LInv s) (ha : Al s) : Al (s.removeId id extra).1 := by
  unfold Db.removeId
  split
  · exact ha
  · exact al_remove s _ extra h ha

theorem al_retain (s : Db) (keep : List RegionId) (h : LInv s) (ha : Al s) : Al (s.retain keep).1 := by
  unfold Db.retain
  generalize (List.range s.slots.length).filter _ = victims
  suffices hh : ∀ (acc : Db × Out), LInv acc.1 → Al acc.1 →
      Al (victims.foldl (fun (acc : Db × Out) i => match acc.2 with | .ok => acc.1.remove i false | _ => acc) acc).1 from hh (s, .ok) h ha
  induction victims with
  | nil => intro acc _ ha; exact ha
  | cons v t ih =>
    intro acc hl ha
    simp only [List.foldl_cons]
    split
    · exact ih _ (linv_remove acc.1 v false hl) (al_remove acc.1 v false hl ha)
    · exact ih _ hl ha

theorem al_promote (s : Db) (ha : Al s) : Al { s with holes := promote s.holes s.pending, pending := [] } := by
  obtain ⟨a1, a2, a3, a4⟩ := (al_parts s).mp ha
  exact (al_parts _).mpr ⟨a1, a2, alL_promote _ _ a3 a4, fun e he => by cases he⟩

theorem al_flush (s : Db) (ha : Al s) : Al s.flush.1 := by
  rw [flush_eq]
  exact al_promote _ ((same_flushPre s).al ha)

theorem al_compact (s : Db) (ha : Al s) : Al s.compact.1 := by
  unfold Db.compact
  have hf := al_flush s ha
  generalize s.flush = r at hf
  obtain ⟨s1, o⟩ := r
  simp only at hf ⊢
  cases o <;> first | exact hf | exact (same_punchHoles s1).al hf

theorem growReserved_aligned (fuel cur need n : Nat) (h : growReserved fuel cur need = some n) (hc : cur % Gen.PAGE_SIZE = 0) :
    n % Gen.PAGE_SIZE = 0 := by
  induction fuel generalizing cur with
  | zero => simp [growReserved] at h
  | succ k ih =>
    simp only [growReserved] at h
    split at h
    · split at h
      · cases h
      · exact ih _ h (by simp only [Gen.PAGE_SIZE] at *; omega)
    · cases h; exact hc

/-- the slot's reservation becomes `nr` (aligned): everything stays aligned -/
theorem al_regrow (s : Db) (ha : Al s) (idx : Nat) (sl : Slot) (hs : s.slot? idx = some sl) (nr : Nat) (hn : nr % Gen.PAGE_SIZE = 0) :
    Al (s.setSlot idx (some (metaSetReserved sl nr))) := by
  obtain ⟨a1, a2, a3, a4⟩ := (al_parts s).mp ha
  refine (al_parts _).mpr ⟨?_, a2, a3, a4⟩
  refine alL_exts_set s.slots idx _ a1 (fun x hx => ?_)
  cases hx
  rw [extOf_metaSetReserved]
  exact ⟨(alE_slot s ha idx sl hs).1, hn⟩

theorem al_writeExtendLast (s : Db) (ha : Al s) (idx : Nat) (sl : Slot) (d : List UInt8) (wo nl nr : Nat)
    (hs : s.slot? idx = some sl) (hn : nr % Gen.PAGE_SIZE = 0) : Al (s.writeExtendLast idx sl d wo nl nr).1 := by
  unfold Db.writeExtendLast
  split
  · exact ha
  · simp only []
    have h1 := al_regrow s ha idx sl hs nr hn
    have hslot : (s.setSlot idx (some (metaSetReserved sl nr))).slot? idx = some (metaSetReserved sl nr) := by
      rw [slot_iff]; simp only [Db.setSlot]
      have := (slot_iff s idx sl).mp hs
      rw [List.getElem?_set_self (by rw [List.getElem?_eq_some_iff] at this; exact this.1)]
    have h2 := same_setMinLen (s.setSlot idx (some (metaSetReserved sl nr))) ((metaSetReserved sl nr).md.start + nr)
    cases hw : ((s.setSlot idx (some (metaSetReserved sl nr))).setMinLen ((metaSetReserved sl nr).md.start + nr)).dataWrite
        ((metaSetReserved sl nr).md.start + wo) d with
    | none => exact h2.al h1
    | some s3 =>
      simp only
      have h3 := same_dataWrite _ s3 _ _ hw
      obtain ⟨old, ho, he⟩ := same_slot _ s3 (h2.trans h3) idx _ hslot
      exact ((h2.trans h3).trans (same_finishWrite s3 idx old _ _ _ _ ho he.symm)).al h1

theorem al_writeExpand (s : Db) (ha : Al s) (idx : Nat) (sl : Slot) (d : List UInt8) (wo nl nr : Nat)
    (hs : s.slot? idx = some sl) (hn : nr % Gen.PAGE_SIZE = 0) (hr : sl.md.reserved ≤ nr) : Al (s.writeExpand idx sl d wo nl nr).1 := by
  unfold Db.writeExpand
  cases hrc : removeOrCompress s.holes (sl.md.start + sl.md.reserved) (nr - sl.md.reserved) with
  | error e => exact ha
  | ok hs' =>
    simp only
    obtain ⟨a1, a2, a3, a4⟩ := (al_parts s).mp ha
    have hsl := alE_slot s ha idx sl hs
    have hby : (nr - sl.md.reserved) % Gen.PAGE_SIZE = 0 := by
      have := hsl.2; simp only [Gen.PAGE_SIZE] at *; omega
    have hmid : Al { s with holes := hs' } := (al_parts _).mpr ⟨a1, a2, alL_removeOrCompress _ _ _ _ a3 hby hrc, a4⟩
    have hs2 : ({ s with holes := hs' } : Db).slot? idx = some sl := hs
    have h2 := al_regrow _ hmid idx sl hs2 nr hn
    split
    · exact hmid
    · have hslot : (({ s with holes := hs' } : Db).setSlot idx (some (metaSetReserved sl nr))).slot? idx = some (metaSetReserved sl nr) := by
        rw [slot_iff]; simp only [Db.setSlot]
        have := (slot_iff s idx sl).mp hs
        rw [List.getElem?_set_self (by rw [List.getElem?_eq_some_iff] at this; exact this.1)]
      cases hw : (({ s with holes := hs' } : Db).setSlot idx (some (metaSetReserved sl nr))).dataWrite
          ((metaSetReserved sl nr).md.start + wo) d with
      | none => exact h2
      | some s3 =>
        simp only
        have h3 := same_dataWrite _ s3 _ _ hw
        obtain ⟨old, ho, he⟩ := same_slot _ s3 h3 idx _ hslot
        exact (h3.trans (same_finishWrite s3 idx old _ _ _ _ ho he.symm)).al h2

/-- `Layout::len()` is a multiple of the page size -/
theorem layoutLen_aligned (s : Db) (h : LInv s) (ha : Al s) : s.layoutLen % Gen.PAGE_SIZE = 0 := by
  have viaList : ∀ (l : List E), (∀ a ∈ l, a ∈ claimedDb s) →
      (match lastOf l with | some (st, r) => st + r | none => 0) % Gen.PAGE_SIZE = 0 := by
    intro l hsub
    cases hl : lastOf l with
    | none => rfl
    | some y =>
      obtain ⟨y1, _⟩ := lastOf_spec l y hl
      have := ha y (hsub y y1)
      unfold AlE at this
      simp only [Gen.PAGE_SIZE] at *
      omega
  have h1 := viaList s.reserved (fun a ha => (mem_claimed s a).mpr (Or.inr (Or.inl ha)))
  have h2 := viaList s.holes (fun a ha => (mem_claimed s a).mpr (Or.inr (Or.inr (Or.inl ha))))
  have h3 := viaList s.pending (fun a ha => (mem_claimed s a).mpr (Or.inr (Or.inr (Or.inr ha))))
  have h4 : (match lastOf s.regions with | some (st, idx) => st + s.reservedOfIdx idx | none => 0) % Gen.PAGE_SIZE = 0 := by
    cases hl : lastOf s.regions with
    | none => rfl
    | some y =>
      obtain ⟨y1, _⟩ := lastOf_spec s.regions y hl
      obtain ⟨st, li⟩ := y
      obtain ⟨r', hv'⟩ := h.reg2 st li y1
      obtain ⟨sl', hs', hst⟩ := (vs_get s li _).mp hv'
      have hst1 : sl'.md.start = st := by simp only [extOf, Prod.mk.injEq] at hst; exact hst.1
      have hres : s.reservedOfIdx li = sl'.md.reserved := by unfold Db.reservedOfIdx; rw [hs']
      have := alE_slot s ha li sl' hs'
      unfold AlE at this
      simp only [hres, ← hst1]
      simp only [Gen.PAGE_SIZE] at *
      omega
  unfold Db.layoutLen
  simp only []
  exact max4_cases (fun n => n % Gen.PAGE_SIZE = 0) _ _ _ _ h1 h2 h3 h4

theorem al_placeRelocation (s s' : Db) (h : LInv s) (ha : Al s) (nr ns : Nat) (hn : nr % Gen.PAGE_SIZE = 0)
    (hp : s.placeRelocation nr = .ok (s', ns)) : Al s' ∧ ns % Gen.PAGE_SIZE = 0 := by
  unfold Db.placeRelocation at hp
  obtain ⟨a1, a2, a3, a4⟩ := (al_parts s).mp ha
  cases hb : bestFit s.holes nr with
  | some hstart =>
    simp only [hb] at hp
    cases hrc : removeOrCompress s.holes hstart nr with
    | error e => simp [hrc] at hp
    | ok hs =>
      simp only [hrc, Except.ok.injEq, Prod.mk.injEq] at hp
      obtain ⟨rfl, rfl⟩ := hp
      obtain ⟨b, hb1, hb2, _, _⟩ := bestFit_some hb
      have hst : hstart % Gen.PAGE_SIZE = 0 := by rw [← hb2]; exact (a3 b hb1).1
      exact ⟨(al_parts _).mpr ⟨a1, alL_append _ _ a2 (alL_single _ ⟨hst, hn⟩), alL_removeOrCompress _ _ _ _ a3 hn hrc, a4⟩, hst⟩
  | none =>
    simp only [hb, Except.ok.injEq, Prod.mk.injEq] at hp
    obtain ⟨rfl, rfl⟩ := hp
    have hll := layoutLen_aligned s h ha
    have hmid : Al { s with reserved := s.reserved ++ [(s.layoutLen, nr)] } :=
      (al_parts _).mpr ⟨a1, alL_append _ _ a2 (alL_single _ ⟨hll, hn⟩), a3, a4⟩
    exact ⟨(same_setMinLen { s with reserved := s.reserved ++ [(s.layoutLen, nr)] } (s.layoutLen + nr)).al hmid, hll⟩



theorem al_writeRelocate (s : Db) (h : LInv s) (ha : Al s) (idx : Nat) (sl cur : Slot) (d : List UInt8) (wo nl nr cl ns : Nat)
    (hs : s.slot? idx = some cur) (hcur : extOf cur = extOf sl) (hres : (ns, nr) ∈ s.reserved) :
    IsPanic (s.writeRelocate idx sl d wo nl nr cl ns).2 ∨ Al (s.writeRelocate idx sl d wo nl nr cl ns).1 := by
  unfold Db.writeRelocate
  cases hc : s.dataCopy sl.md.start ns cl with
  | error o => right; exact ha
  | ok s1 =>
    simp only
    have h1 := same_dataCopy s s1 _ _ _ hc
    cases hw : s1.dataWrite (ns + wo) d with
    | none => left; trivial
    | some s2 =>
      simp only
      have h2 := h1.trans (same_dataWrite s1 s2 _ _ hw)
      have hi2 := h2.linv h
      have ha2 := h2.al ha
      obtain ⟨c2, hc2, he2⟩ := same_slot s s2 h2 idx cur hs
      have hext : extOf c2 = (sl.md.start, sl.md.reserved) := by rw [he2, hcur]; rfl
      have hv2 : (vs s2)[idx]? = some (some (sl.md.start, sl.md.reserved)) := (vs_get s2 idx _).mpr ⟨c2, hc2, hext⟩
      have hg := regions_get s2 hi2 idx _ _ hv2
      have hres2 : (ns, nr) ∈ s2.reserved := by rw [h2.2.2.1]; exact hres
      obtain ⟨rp, ro⟩ := reserved_pos_one s2 hi2
      have hga := alGet_of_mem s2.reserved (ns, nr) rp ro hres2
      unfold Db.layoutRemoveRegion
      simp only [hg, if_true, Bool.not_true, Bool.false_eq_true, if_false, hga, bne_self_eq_false]
      split
      · left; trivial
      · right
        obtain ⟨a1, a2, a3, a4⟩ := (al_parts s2).mp ha2
        have hnew : AlE (ns, nr) := a2 _ hres2
        have hold : AlE (sl.md.start, sl.md.reserved) := by
          have := alE_slot s2 ha2 idx c2 hc2
          simp only [extOf, Prod.mk.injEq] at hext
          rw [hext.1, hext.2] at this; exact this
        have hnewext : extOf (metaSetLen (metaSetReserved (metaSetStart (markDirty sl 0 nl) ns) nr) nl) = (ns, nr) := by
          rw [extOf_metaSetLen, extOf_metaSetReserved]
          have := extOf_metaSetStart (markDirty sl 0 nl) ns
          simp only [extOf, Prod.mk.injEq] at this
          rw [this.1]
        unfold Db.writeIfDirty
        split
        · refine (al_parts _).mpr ⟨?_, alL_alErase _ _ a2, a3, alL_sortedInsert _ _ _ a4 hold⟩
          exact alL_exts_set s2.slots idx _ a1 (fun x hx => by cases hx; simpa [extOf] using (show AlE (extOf (metaSetLen (metaSetReserved (metaSetStart (markDirty sl 0 nl) ns) nr) nl)) by rw [hnewext]; exact hnew))
        · refine (al_parts _).mpr ⟨?_, alL_alErase _ _ a2, a3, alL_sortedInsert _ _ _ a4 hold⟩
          exact alL_exts_set s2.slots idx _ a1 (fun x hx => by cases hx; rw [hnewext]; exact hnew)

theorem al_writeGrow (s : Db) (h : LInv s) (ha : Al s) (idx : Nat) (sl : Slot) (d : List UInt8) (wo nl cl : Nat)
    (hs : s.slot? idx = some sl) (hnl : sl.md.reserved < nl) :
    IsPanic (s.writeGrow idx sl d wo nl cl).2 ∨ Al (s.writeGrow idx sl d wo nl cl).1 := by
  unfold Db.writeGrow
  simp only []
  split
  · right; exact ha
  · cases hg : growReserved 64 sl.md.reserved nl with
    | none => right; exact ha
    | some nr =>
      simp only
      have hge := growReserved_ge 64 _ _ _ hg
      have hneed := growReserved_need 64 _ _ _ hg
      have hn := growReserved_aligned 64 _ _ _ hg (alE_slot s ha idx sl hs).2
      split
      · right; exact al_writeExtendLast s ha idx sl d wo nl nr hs hn
      · split
        · right; exact al_writeExpand s ha idx sl d wo nl nr hs hn hge
        · cases hp : s.placeRelocation nr with
          | error e => right; exact ha
          | ok r =>
            obtain ⟨s', ns⟩ := r
            simp only
            obtain ⟨p1, p2, p3, p4⟩ := linv_placeRelocation s s' h nr ns (by omega) hp
            obtain ⟨pa, _⟩ := al_placeRelocation s s' h ha nr ns hn hp
            have hv : (vs s')[idx]? = some (some (extOf sl)) := by rw [p3]; exact (vs_get s idx _).mpr ⟨sl, hs, rfl⟩
            obtain ⟨cur, hc1, hc2⟩ := (vs_get s' idx _).mp hv
            exact al_writeRelocate s' p1 pa idx sl cur d wo nl nr cl ns hc1 hc2 p2

theorem al_writeWith (s : Db) (h : LInv s) (ha : Al s) (idx : Nat) (d : List UInt8) (at_ : Option Nat) (tr : Bool) :
    IsPanic (s.writeWith idx d at_ tr).2 ∨ Al (s.writeWith idx d at_ tr).1 := by
  unfold Db.writeWith
  cases hs : s.slot? idx with
  | none => right; exact ha
  | some sl =>
    simp only
    split
    · right; exact ha
    · split
      · right; exact (same_writeFits s idx sl d _ _ hs).al ha
      · rename_i hn
        exact al_writeGrow s h ha idx sl d _ _ _ hs (by omega)

theorem al_create (s : Db) (id : RegionId) (h : LInv s) (ha : Al s) : IsPanic (s.create id).2 ∨ Al (s.create id).1 := by
  unfold Db.create
  cases hf : s.findId id with
  | some i => right; exact ha
  | none =>
    simp only
    generalize hs0 : (if (bestFit s.holes Gen.PAGE_SIZE).isNone = true then s.setMinLen (s.layoutLen + Gen.PAGE_SIZE) else s) = s0
    have h0s : Same s s0 := by rw [← hs0]; split; exact same_setMinLen _ _; exact Same.refl s
    have h0 := h0s.linv h
    have ha0 := h0s.al ha
    have key : ∀ (s1 : Db) (start : Nat), Al s1 → start % Gen.PAGE_SIZE = 0 →
        IsPanic (if (!idValid id) = true then (s1, Out.panic "validate_id") else
          (let idx := match s1.slots.findIdx? (·.isNone) with | some i => i | none => s1.slots.length
           let s2 := s1.regionsSetMinSlots (idx + 1)
           let sl : Slot := { md := { start := start, len := 0, reserved := Gen.PAGE_SIZE, id := id }, st := .needsWrite, dmin := USIZE_MAX, dmax := 0 }
           let s3 := if idx < s2.slots.length then s2.setSlot idx (some sl) else { s2 with slots := s2.slots ++ [some sl] }
           ({ s3 with regions := s3.regions ++ [(start, idx)] }, Out.okN idx))).2 ∨
        Al (if (!idValid id) = true then (s1, Out.panic "validate_id") else
          (let idx := match s1.slots.findIdx? (·.isNone) with | some i => i | none => s1.slots.length
           let s2 := s1.regionsSetMinSlots (idx + 1)
           let sl : Slot := { md := { start := start, len := 0, reserved := Gen.PAGE_SIZE, id := id }, st := .needsWrite, dmin := USIZE_MAX, dmax := 0 }
           let s3 := if idx < s2.slots.length then s2.setSlot idx (some sl) else { s2 with slots := s2.slots ++ [some sl] }
           ({ s3 with regions := s3.regions ++ [(start, idx)] }, Out.okN idx))).1 := by
      intro s1 start ha1 hst
      split
      · left; trivial
      · right
        simp only []
        generalize hidx : (match s1.slots.findIdx? (·.isNone) with | some i => i | none => s1.slots.length) = idx
        have hs2 := same_regionsSetMinSlots s1 (idx + 1)
        have ha2 := hs2.al ha1
        obtain ⟨a1, a2, a3, a4⟩ := (al_parts _).mp ha2
        have hnew : AlE (start, Gen.PAGE_SIZE) := ⟨hst, by simp [Gen.PAGE_SIZE]⟩
        split
        · refine (al_parts _).mpr ⟨?_, a2, a3, a4⟩
          exact alL_exts_set _ idx _ a1 (fun x hx => by cases hx; exact hnew)
        · refine (al_parts _).mpr ⟨?_, a2, a3, a4⟩
          show AlL (exts ((s1.regionsSetMinSlots (idx + 1)).slots ++ [some _]))
          rw [exts_append]
          refine alL_append _ _ a1 ?_
          intro e he
          simp [exts] at he
          rw [he]; exact hnew
    obtain ⟨a1, a2, a3, a4⟩ := (al_parts s0).mp ha0
    cases hb : bestFit s0.holes Gen.PAGE_SIZE with
    | some hstart =>
      simp only
      cases hrc : removeOrCompress s0.holes hstart Gen.PAGE_SIZE with
      | error e => right; exact ha0
      | ok hs =>
        simp only
        obtain ⟨b, hb1, hb2, _, _⟩ := bestFit_some hb
        have hst : hstart % Gen.PAGE_SIZE = 0 := by rw [← hb2]; exact (a3 b hb1).1
        exact key { s0 with holes := hs } hstart ((al_parts _).mpr ⟨a1, a2, alL_removeOrCompress _ _ _ _ a3 (by decide) hrc, a4⟩) hst
    | none =>
      simp only
      exact key s0 s0.layoutLen ha0 (layoutLen_aligned s0 h0 ha0)

theorem al_step (s : Db) (op : Op) (h : LInv s) (ha : Al s) (hop : ∀ n, op ≠ .reopen n) :
    IsPanic (step s op).2 ∨ Al (step s op).1 := by
  cases op with
  | create id => exact al_create s id h ha
  | write id d => simp only [step, Db.withRegion]; split; right; exact ha; exact al_writeWith s h ha _ d none false
  | writeAt id a d => simp only [step, Db.withRegion]; split; right; exact ha; exact al_writeWith s h ha _ d (some a) false
  | truncate id n => simp only [step, Db.withRegion]; split; right; exact ha; right; exact (same_truncate s _ n).al ha
  | truncateWrite id a d => simp only [step, Db.withRegion]; split; right; exact ha; exact al_writeWith s h ha _ d (some a) true
  | rename id n => simp only [step, Db.withRegion]; split; right; exact ha; right; exact (same_rename s _ n).al ha
  | remove id => right; exact al_removeId s id false h ha
  | removeHeld id => right; exact al_removeId s id true h ha
  | retain ids => right; exact al_retain s ids h ha
  | flush => right; exact al_flush s ha
  | regionFlush id => simp only [step, Db.withRegion]; split; right; exact ha; right; exact (same_regionFlush s _).al ha
  | compact => right; exact al_compact s ha
  | reopen n => exact absurd rfl (hop n)
  | setMinLen n => right; exact (same_setMinLen s n).al ha
  | setMinRegions n => right; exact (same_setMinRegions s n).al ha


end AnyDB.C02r
