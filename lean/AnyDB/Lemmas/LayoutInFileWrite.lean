import AnyDB.Lemmas.LayoutInFileGrow
namespace AnyDB.C02r
open AnyDB Conc Db Mem

theorem inf_placeRelocation (s s' : Db) (hi : InF s) (nr ns : Nat)
    (hp : s.placeRelocation nr = .ok (s', ns)) : InF s' := by
  unfold Db.placeRelocation at hp
  obtain ⟨a1, a2, a3, a4⟩ := (inf_parts s _).mp hi.2
  cases hb : bestFit s.holes nr with
  | some hstart =>
    simp only [hb] at hp
    cases hrc : removeOrCompress s.holes hstart nr with
    | error e => simp [hrc] at hp
    | ok hs =>
      simp only [hrc, Except.ok.injEq, Prod.mk.injEq] at hp
      obtain ⟨rfl, rfl⟩ := hp
      obtain ⟨b, hb1, hb2, hb3, _⟩ := bestFit_some hb
      have := a3 b hb1
      exact ⟨hi.1, (inf_parts _ _).mpr ⟨a1, inL_append _ _ _ a2 (inL_single _ _ (by simp only; omega)), inL_removeOrCompress _ _ _ _ _ a3 hrc, a4⟩⟩
  | none =>
    simp only [hb, Except.ok.injEq, Prod.mk.injEq] at hp
    obtain ⟨rfl, rfl⟩ := hp
    have hfl : ({ s with reserved := s.reserved ++ [(s.layoutLen, nr)] } : Db).fileLen = ({ s with reserved := s.reserved ++ [(s.layoutLen, nr)] } : Db).mem.size := hi.1
    obtain ⟨g1, g2, g3⟩ := setMinLen_inf { s with reserved := s.reserved ++ [(s.layoutLen, nr)] } (s.layoutLen + nr) hfl
    refine ⟨g1, ?_⟩
    rw [same_claimed _ _ (same_setMinLen _ _)]
    have g2' : s.mem.size ≤ (({ s with reserved := s.reserved ++ [(s.layoutLen, nr)] } : Db).setMinLen (s.layoutLen + nr)).mem.size := g2
    exact (inf_parts _ _).mpr ⟨inL_mono _ _ _ a1 g2', inL_append _ _ _ (inL_mono _ _ _ a2 g2') (inL_single _ _ g3), inL_mono _ _ _ a3 g2', inL_mono _ _ _ a4 g2'⟩

theorem inf_writeRelocate (s : Db) (h : LInv s) (hi : InF s) (idx : Nat) (sl cur : Slot) (d : List UInt8) (wo nl nr cl ns : Nat)
    (hs : s.slot? idx = some cur) (hcur : extOf cur = extOf sl) (hres : (ns, nr) ∈ s.reserved) :
    InF (s.writeRelocate idx sl d wo nl nr cl ns).1 := by
  unfold Db.writeRelocate
  cases hc : s.dataCopy sl.md.start ns cl with
  | error o => exact hi
  | ok s1 =>
    simp only
    have h1 := same_dataCopy s s1 _ _ _ hc
    have m1 := ms_dataCopy s s1 _ _ _ hc
    cases hw : s1.dataWrite (ns + wo) d with
    | none => exact h1.inf' m1 hi
    | some s2 =>
      simp only
      have h2 := h1.trans (same_dataWrite s1 s2 _ _ hw)
      have m2 := m1.trans (ms_dataWrite s1 s2 _ _ hw)
      have hl2 := h2.linv h
      have hi2 := h2.inf' m2 hi
      obtain ⟨c2, hc2, he2⟩ := same_slot s s2 h2 idx cur hs
      have hext : extOf c2 = (sl.md.start, sl.md.reserved) := by rw [he2, hcur]; rfl
      have hv2 : (vs s2)[idx]? = some (some (sl.md.start, sl.md.reserved)) := (vs_get s2 idx _).mpr ⟨c2, hc2, hext⟩
      have hg := regions_get s2 hl2 idx _ _ hv2
      have hres2 : (ns, nr) ∈ s2.reserved := by rw [h2.2.2.1]; exact hres
      obtain ⟨rp, ro⟩ := reserved_pos_one s2 hl2
      have hga := alGet_of_mem s2.reserved (ns, nr) rp ro hres2
      unfold Db.layoutRemoveRegion
      simp only [hg, if_true, Bool.not_true, Bool.false_eq_true, if_false, hga, bne_self_eq_false]
      obtain ⟨a1, a2, a3, a4⟩ := (inf_parts s2 _).mp hi2.2
      have hnew : ns + nr ≤ s2.mem.size := a2 _ hres2
      have hold : sl.md.start + sl.md.reserved ≤ s2.mem.size := by
        have := inE_slot s2 hi2 idx c2 hc2
        simp only [extOf, Prod.mk.injEq] at hext
        rw [hext.1, hext.2] at this; exact this
      split
      · exact ⟨hi2.1, (inf_parts _ _).mpr ⟨a1, inL_alErase _ _ _ a2, a3, inL_sortedInsert _ _ _ _ a4 hold⟩⟩
      · have hnewext : extOf (metaSetLen (metaSetReserved (metaSetStart (markDirty sl 0 nl) ns) nr) nl) = (ns, nr) := by
          rw [extOf_metaSetLen, extOf_metaSetReserved]
          have := extOf_metaSetStart (markDirty sl 0 nl) ns
          simp only [extOf, Prod.mk.injEq] at this
          rw [this.1]
        simp only [extOf, Prod.mk.injEq] at hnewext
        unfold Db.writeIfDirty
        split
        · refine ⟨hi2.1, (inf_parts _ _).mpr ⟨?_, inL_alErase _ _ _ a2, a3, inL_sortedInsert _ _ _ _ a4 hold⟩⟩
          exact inL_exts_set s2.slots idx _ _ a1 (fun x hx => by cases hx; show _ + _ ≤ _; simp only []; rw [hnewext.1, hnewext.2]; exact hnew)
        · refine ⟨hi2.1, (inf_parts _ _).mpr ⟨?_, inL_alErase _ _ _ a2, a3, inL_sortedInsert _ _ _ _ a4 hold⟩⟩
          exact inL_exts_set s2.slots idx _ _ a1 (fun x hx => by cases hx; rw [hnewext.1, hnewext.2]; exact hnew)

theorem inf_writeGrow (s : Db) (h : LInv s) (hi : InF s) (idx : Nat) (sl : Slot) (d : List UInt8) (wo nl cl : Nat)
    (hs : s.slot? idx = some sl) (hnl : sl.md.reserved < nl) :
    InF (s.writeGrow idx sl d wo nl cl).1 := by
  unfold Db.writeGrow
  simp only []
  split
  · exact hi
  · cases hg : growReserved 64 sl.md.reserved nl with
    | none => exact hi
    | some nr =>
      simp only
      have hge := growReserved_ge 64 _ _ _ hg
      have hneed := growReserved_need 64 _ _ _ hg
      split
      · exact inf_writeExtendLast s hi idx sl d wo nl nr hs
      · split
        · rename_i hce; exact inf_writeExpand s hi idx sl d wo nl nr hs hge hce
        · cases hp : s.placeRelocation nr with
          | error e => exact hi
          | ok r =>
            obtain ⟨s', ns⟩ := r
            simp only
            obtain ⟨p1, p2, p3, p4⟩ := linv_placeRelocation s s' h nr ns (by omega) hp
            have pa := inf_placeRelocation s s' hi nr ns hp
            have hv : (vs s')[idx]? = some (some (extOf sl)) := by rw [p3]; exact (vs_get s idx _).mpr ⟨sl, hs, rfl⟩
            obtain ⟨cur, hc1, hc2⟩ := (vs_get s' idx _).mp hv
            exact inf_writeRelocate s' p1 pa idx sl cur d wo nl nr cl ns hc1 hc2 p2

theorem inf_writeWith (s : Db) (h : LInv s) (hi : InF s) (idx : Nat) (d : List UInt8) (at_ : Option Nat) (tr : Bool) :
    InF (s.writeWith idx d at_ tr).1 := by
  unfold Db.writeWith
  cases hs : s.slot? idx with
  | none => exact hi
  | some sl =>
    simp only
    split
    · exact hi
    · split
      · exact (same_writeFits s idx sl d _ _ hs).inf' (ms_writeFits s idx sl d _ _) hi
      · rename_i hn
        exact inf_writeGrow s h hi idx sl d _ _ _ hs (by omega)

end AnyDB.C02r
