import AnyDB.Lemmas.LayoutGrow

/-!
Operations of the rawdb model against the layout invariant, part 3: `create_region_if_needed` — a free slot (or one
past the end), an extent from the best-fitting hole or from the end of the allocated area.
-/
namespace AnyDB.C02r
open AnyDB Conc Db

/-! ## creation -/

theorem vs_append (s : Db) (sl : Slot) : (s.slots ++ [some sl]).map (fun o => o.map extOf) = vs s ++ [some (extOf sl)] := by
  unfold vs; simp

/-- a new region enters the layout: free slot `idx` (or one past the end), extent not claimed so far -/
theorem linv_added (s f : Db) (h : LInv s) (idx start size : Nat) (new : Slot) (hnew : extOf new = (start, size)) (hsz : 0 < size)
    (hslot : (s.slots[idx]? = some none ∧ f.slots = s.slots.set idx (some new)) ∨ (idx = s.slots.length ∧ f.slots = s.slots ++ [some new]))
    (f2 : f.regions = s.regions ++ [(start, idx)]) (f3 : f.reserved = s.reserved) (f4 : f.holes = s.holes) (f5 : f.pending = s.pending)
    (hfree : ∀ x, cnt (claimedDb s) x + ind (start, size) x ≤ 1) : LInv f := by
  -- the view of the slots: everything as before, `idx` now holds the new extent
  have hvf : ∀ i, (vs f)[i]? = if i = idx then some (some (start, size)) else (vs s)[i]? := by
    intro i
    rcases hslot with ⟨h1, h2⟩ | ⟨h1, h2⟩
    · have hlen : idx < s.slots.length := by rw [List.getElem?_eq_some_iff] at h1; exact h1.1
      unfold vs; rw [h2, List.map_set]
      by_cases hi : i = idx
      · subst hi; simp only [if_true]; rw [List.getElem?_set_self (by simpa using hlen)]; simp [hnew]
      · simp only [hi, if_false]; rw [List.getElem?_set_ne (Ne.symm hi)]
    · unfold vs; rw [h2]
      simp only [List.map_append, List.map_cons, List.map_nil, Option.map_some, hnew]
      by_cases hi : i = idx
      · subst hi; simp only [if_true]; rw [h1, List.getElem?_append_right (by simp)]; simp
      · simp only [hi, if_false]
        by_cases hlt : i < s.slots.length
        · rw [List.getElem?_append_left (by simpa using hlt)]
        · have : i > s.slots.length := by omega
          rw [List.getElem?_append_right (by simp; omega)]
          have e1 : ([some (start, size)] : List (Option E))[i - (List.map (fun o => Option.map extOf o) s.slots).length]? = none := by
            apply List.getElem?_eq_none; simp; omega
          rw [e1, List.getElem?_eq_none (by simp; omega)]
  have hold : (vs s)[idx]? = some none ∨ (vs s)[idx]? = none := by
    rcases hslot with ⟨h1, _⟩ | ⟨h1, _⟩
    · left; unfold vs; rw [List.getElem?_map, h1]; rfl
    · right; unfold vs; apply List.getElem?_eq_none; simp [h1]
  have hcnt : ∀ x, cnt (exts f.slots) x = cnt (exts s.slots) x + ind (start, size) x := by
    intro x
    rcases hslot with ⟨h1, h2⟩ | ⟨h1, h2⟩
    · rw [h2, cnt_exts_fill s.slots idx new x h1, hnew]
    · rw [h2, exts_append, cnt_append]
      simp only [exts, List.filterMap_cons, Option.map_some, List.filterMap_nil, cnt_cons, cnt_nil, hnew]; omega
  refine ⟨?_, ?_, ?_, ?_⟩
  · intro x
    have := hfree x
    unfold claimedDb at this ⊢
    simp only [cnt_append, f3, f4, f5, hcnt x] at this ⊢
    omega
  · intro e he
    rcases (mem_claimed f e).mp he with h1 | h1 | h1 | h1
    · obtain ⟨j, slj, hj, rfl⟩ := (mem_exts f.slots e).mp h1
      have hvj : (vs f)[j]? = some (some (extOf slj)) := (vs_get f j _).mpr ⟨slj, (slot_iff f j slj).mpr hj, rfl⟩
      rw [hvf j] at hvj
      split at hvj
      · simp only [Option.some.injEq] at hvj; rw [← hvj]; exact hsz
      · exact h.pos _ (ext_mem s j _ hvj)
    · rw [f3] at h1; exact h.pos e ((mem_claimed s e).mpr (Or.inr (Or.inl h1)))
    · rw [f4] at h1; exact h.pos e ((mem_claimed s e).mpr (Or.inr (Or.inr (Or.inl h1))))
    · rw [f5] at h1; exact h.pos e ((mem_claimed s e).mpr (Or.inr (Or.inr (Or.inr h1))))
  · intro i st r hi
    rw [hvf i] at hi
    rw [f2]
    split at hi
    · rename_i hii
      simp only [Option.some.injEq, Prod.mk.injEq] at hi
      rw [← hi.1, hii]; simp
    · exact List.mem_append.mpr (Or.inl (h.reg1 i st r hi))
  · intro st i hm
    rw [f2] at hm
    rcases List.mem_append.mp hm with hm | hm
    · obtain ⟨r, hr⟩ := h.reg2 st i hm
      have hii : i ≠ idx := by
        intro e2; subst e2
        rcases hold with ho | ho <;> rw [ho] at hr <;> simp at hr
      exact ⟨r, by rw [hvf i]; simp only [hii, if_false]; exact hr⟩
    · simp only [List.mem_singleton, Prod.mk.injEq] at hm
      obtain ⟨rfl, rfl⟩ := hm
      exact ⟨size, by rw [hvf i]; simp⟩


theorem linv_create (s : Db) (id : RegionId) (h : LInv s) : IsPanic (s.create id).2 ∨ LInv (s.create id).1 := by
  unfold Db.create
  cases hf : s.findId id with
  | some i => right; exact h
  | none =>
    simp only
    -- the unlocked pre-check may grow the file
    generalize hs0 : (if (bestFit s.holes Gen.PAGE_SIZE).isNone = true then s.setMinLen (s.layoutLen + Gen.PAGE_SIZE) else s) = s0
    have h0s : Same s s0 := by rw [← hs0]; split; exact same_setMinLen _ _; exact Same.refl s
    have h0 := h0s.linv h
    have hpage : 0 < Gen.PAGE_SIZE := by decide
    obtain ⟨hhp, hho⟩ := holes_pos_one s0 h0
    -- the placement and the state it leaves, with the room for the new extent
    have key : ∀ (s1 : Db) (start : Nat), LInv s1 → (∀ x, cnt (claimedDb s1) x + ind (start, Gen.PAGE_SIZE) x ≤ 1) →
        IsPanic (if (!idValid id) = true then (s1, Out.panic "validate_id") else
          (let idx := match s1.slots.findIdx? (·.isNone) with | some i => i | none => s1.slots.length
           let s2 := s1.regionsSetMinSlots (idx + 1)
           let sl : Slot := { md := { start := start, len := 0, reserved := Gen.PAGE_SIZE, id := id }, st := .needsWrite, dmin := USIZE_MAX, dmax := 0 }
           let s3 := if idx < s2.slots.length then s2.setSlot idx (some sl) else { s2 with slots := s2.slots ++ [some sl] }
           ({ s3 with regions := s3.regions ++ [(start, idx)] }, Out.okN idx))).2 ∨
        LInv (if (!idValid id) = true then (s1, Out.panic "validate_id") else
          (let idx := match s1.slots.findIdx? (·.isNone) with | some i => i | none => s1.slots.length
           let s2 := s1.regionsSetMinSlots (idx + 1)
           let sl : Slot := { md := { start := start, len := 0, reserved := Gen.PAGE_SIZE, id := id }, st := .needsWrite, dmin := USIZE_MAX, dmax := 0 }
           let s3 := if idx < s2.slots.length then s2.setSlot idx (some sl) else { s2 with slots := s2.slots ++ [some sl] }
           ({ s3 with regions := s3.regions ++ [(start, idx)] }, Out.okN idx))).1 := by
      intro s1 start h1 hroom
      split
      · left; trivial
      · right
        simp only []
        generalize hidx : (match s1.slots.findIdx? (·.isNone) with | some i => i | none => s1.slots.length) = idx
        have hs2 := same_regionsSetMinSlots s1 (idx + 1)
        have hs2slots : (s1.regionsSetMinSlots (idx + 1)).slots = s1.slots := by
          unfold Db.regionsSetMinSlots; split <;> rfl
        have h2 := hs2.linv h1
        have hroom2 : ∀ x, cnt (claimedDb (s1.regionsSetMinSlots (idx + 1))) x + ind (start, Gen.PAGE_SIZE) x ≤ 1 := by
          intro x
          have : claimedDb (s1.regionsSetMinSlots (idx + 1)) = claimedDb s1 := by
            unfold claimedDb; rw [exts_vs, exts_vs, hs2.1, hs2.2.2.1, hs2.2.2.2.1, hs2.2.2.2.2]
          rw [this]; exact hroom x
        split
        · rename_i hlt
          rw [hs2slots] at hlt
          -- idx came from findIdx?: the slot is free
          have hnone : s1.slots[idx]? = some none := by
            cases hfi : s1.slots.findIdx? (·.isNone) with
            | none => rw [hfi] at hidx; simp only at hidx; omega
            | some i =>
              rw [hfi] at hidx; simp only at hidx; subst hidx
              obtain ⟨hi, hp, _⟩ := List.findIdx?_eq_some_iff_getElem.mp hfi
              rw [List.getElem?_eq_getElem hi]
              cases hx : s1.slots[i] with
              | none => rfl
              | some v => simp [hx] at hp
          refine linv_added (s1.regionsSetMinSlots (idx + 1)) _ h2 idx start Gen.PAGE_SIZE _ rfl hpage
            (Or.inl ⟨by rw [hs2slots]; exact hnone, rfl⟩) rfl rfl rfl rfl hroom2
        · rename_i hge
          rw [hs2slots] at hge
          have hidxlen : idx = s1.slots.length := by
            cases hfi : s1.slots.findIdx? (·.isNone) with
            | none => rw [hfi] at hidx; simp only at hidx; exact hidx.symm
            | some i =>
              rw [hfi] at hidx; simp only at hidx; subst hidx
              obtain ⟨hi, _, _⟩ := List.findIdx?_eq_some_iff_getElem.mp hfi
              omega
          refine linv_added (s1.regionsSetMinSlots (idx + 1)) _ h2 idx start Gen.PAGE_SIZE _ rfl hpage
            (Or.inr ⟨by rw [hs2slots]; exact hidxlen, rfl⟩) rfl rfl rfl rfl hroom2
    cases hb : bestFit s0.holes Gen.PAGE_SIZE with
    | some hstart =>
      simp only
      obtain ⟨size, hg, hsz⟩ := bestFit_alGet s0.holes Gen.PAGE_SIZE hstart hhp hho hb
      cases hrc : removeOrCompress s0.holes hstart Gen.PAGE_SIZE with
      | error e => right; exact h0
      | ok hs =>
        simp only
        have hrc' := fun x => removeOrCompress_cnt s0.holes hs hstart Gen.PAGE_SIZE size hhp hho hg hrc x
        have h1 : LInv { s0 with holes := hs } := by
          refine ⟨?_, ?_, h0.reg1, h0.reg2⟩
          · intro x
            have := h0.one x
            have := (hrc' x).2.1
            unfold claimedDb at *
            simp only [cnt_append] at *
            omega
          · intro e he
            rcases (mem_claimed _ e).mp he with h1 | h1 | h1 | h1
            · exact h0.pos e ((mem_claimed s0 e).mpr (Or.inl h1))
            · exact h0.pos e ((mem_claimed s0 e).mpr (Or.inr (Or.inl h1)))
            · exact (hrc' 0).2.2 hpage e h1
            · exact h0.pos e ((mem_claimed s0 e).mpr (Or.inr (Or.inr (Or.inr h1))))
        exact key { s0 with holes := hs } hstart h1 (by
          intro x
          have := h0.one x
          have := (hrc' x).2.1
          unfold claimedDb at *
          simp only [cnt_append] at *
          omega)
    | none =>
      simp only
      exact key s0 s0.layoutLen h0 (by
        intro x
        have := h0.one x
        by_cases hx : s0.layoutLen ≤ x
        · have := free_from_len s0 h0 x hx
          have := ind_le_one (s0.layoutLen, Gen.PAGE_SIZE) x
          omega
        · rw [ind_neg _ _ _ (by omega)]; omega)


end AnyDB.C02r
