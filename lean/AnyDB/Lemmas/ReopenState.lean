import AnyDB.Props.C01Total
namespace AnyDB.C01r
open AnyDB Conc Db C02r Mem

/-! # the state `Database::open` rebuilds satisfies every invariant again -/

/-- the slot read back at `idx` is the old one, marked clean -/
theorem reopen_slot (s : Db) (n : Nat) (hf : FInv s) (hr : RInv s) (ha : Al s)
    (hw : ∀ idx sl, s.slot? idx = some sl → sl.st ≠ .needsWrite) (hok : (s.reopen n).2 = .ok) (idx : Nat) :
    (s.reopen n).1.slot? idx = (s.slot? idx).map cleanOf ∧ (s.reopen n).1.rfile = s.rfile ∧
    (s.reopen n).1.slots.length = s.rfile.length ∧ s.mem.size ≤ (s.reopen n).1.mem.size ∧
    (s.fileLen = s.mem.size → (s.reopen n).1.fileLen = (s.reopen n).1.mem.size) ∧
    (s.reopen n).1.reserved = [] ∧ (s.reopen n).1.pending = [] := by
  rw [reopen_eq] at hok ⊢
  simp only [] at hok ⊢
  generalize hs0 : (if s.fileLen < n then ({ s with fileLen := n, mem := s.mem.grow n, log := s.log ++ [.setLen .data n, .sync .data] } : Db) else s) = s0 at hok ⊢
  have h0 : s0.slots = s.slots ∧ s0.rfile = s.rfile ∧ s.mem.size ≤ s0.mem.size ∧ (s.fileLen = s.mem.size → s0.fileLen = s0.mem.size) := by
    rw [← hs0]; split
    · rename_i hlt
      exact ⟨rfl, rfl, by simp only [size_grow]; omega, fun he => by simp only [size_grow]; omega⟩
    · exact ⟨rfl, rfl, Nat.le_refl _, fun he => he⟩
  have hget := slotsRead_get s hf hr ha hw idx
  split at hok
  · cases hok
  · simp only []
    refine ⟨?_, h0.2.1, by rw [h0.2.1]; simp [slotsRead], h0.2.2.1, h0.2.2.2, trivial, trivial⟩
    unfold Db.slot?
    simp only []
    rw [h0.2.1]; exact hget

theorem reopen_holes (s : Db) (n : Nat) (hf : FInv s) (hr : RInv s) (ha : Al s)
    (hw : ∀ idx sl, s.slot? idx = some sl → sl.st ≠ .needsWrite) :
    ∀ e ∈ (s.reopen n).1.holes, (e.1 = 0 ∨ ∃ j sl, s.slot? j = some sl ∧ e.1 = sl.md.start + sl.md.reserved) ∧
      ∃ j sl, s.slot? j = some sl ∧ e.1 + e.2 = sl.md.start := by
  rw [reopen_eq]
  simp only []
  generalize hs0 : (if s.fileLen < n then ({ s with fileLen := n, mem := s.mem.grow n, log := s.log ++ [.setLen .data n, .sync .data] } : Db) else s) = s0
  have hrf : s0.rfile = s.rfile := by rw [← hs0]; split <;> rfl
  obtain ⟨H, e1, _, e3⟩ := reopen_layout s hf hr ha hw
  rw [← hrf] at e1
  rw [e1]
  exact e3

end AnyDB.C01r
