import AnyDB.Lemmas.CrashKeepPunch
namespace AnyDB.C05r
open AnyDB Conc Db C02r C01r Mem

/-! ## the four placement paths of `write_with` on another region -/

theorem keep_finishWrite (j a b : Nat) (s : Db) (idx : Nat) (sl : Slot) (x y z : Nat) (hj : j ≠ idx) :
    Keep j a b s (s.finishWrite idx sl x y z) := keep_writeIfDirty_ne _ _ _ _ _ _ hj

theorem keep_writeFits (j a b : Nat) (s : Db) (idx : Nat) (sl : Slot) (d : List UInt8) (wo nl : Nat) (hj : j ≠ idx)
    (hav : sl.md.start + wo + d.length ≤ a ∨ b ≤ sl.md.start + wo) : Keep j a b s (s.writeFits idx sl d wo nl).1 := by
  unfold Db.writeFits
  cases hw : s.dataWrite (sl.md.start + wo) d with
  | none => exact Keep.refl _ _ _ _
  | some s1 =>
    simp only []
    have k1 := keep_dataWrite j a b s s1 _ _ hw hav
    split
    · exact k1.trans (keep_writeIfDirty_ne _ _ _ _ _ _ hj)
    · exact k1.trans (keep_setSlot_ne _ _ _ _ _ _ hj)

theorem keep_writeExtendLast (j a b : Nat) (s : Db) (idx : Nat) (sl : Slot) (d : List UInt8) (wo nl nr : Nat) (hj : j ≠ idx)
    (hb : b ≤ s.fileLen) (hav : sl.md.start + wo + d.length ≤ a ∨ b ≤ sl.md.start + wo) :
    Keep j a b s (s.writeExtendLast idx sl d wo nl nr).1 := by
  unfold Db.writeExtendLast
  split
  · exact Keep.refl _ _ _ _
  · simp only []
    have hst := metaSetReserved_start sl nr
    have k1 := keep_setSlot_ne j a b s idx (some (metaSetReserved sl nr)) hj
    have k2 := keep_setMinLen j a b (s.setSlot idx (some (metaSetReserved sl nr))) ((metaSetReserved sl nr).md.start + nr) hb
    cases hw : ((s.setSlot idx (some (metaSetReserved sl nr))).setMinLen ((metaSetReserved sl nr).md.start + nr)).dataWrite
        ((metaSetReserved sl nr).md.start + wo) d with
    | none => exact k1.trans k2
    | some s3 =>
      simp only []
      exact ((k1.trans k2).trans (keep_dataWrite j a b _ s3 _ _ hw (by rw [hst]; exact hav))).trans (keep_finishWrite _ _ _ _ _ _ _ _ _ hj)

theorem keep_writeExpand (j a b : Nat) (s : Db) (idx : Nat) (sl : Slot) (d : List UInt8) (wo nl nr : Nat) (hj : j ≠ idx)
    (hav : sl.md.start + wo + d.length ≤ a ∨ b ≤ sl.md.start + wo) :
    Keep j a b s (s.writeExpand idx sl d wo nl nr).1 := by
  unfold Db.writeExpand
  cases hrc : removeOrCompress s.holes (sl.md.start + sl.md.reserved) (nr - sl.md.reserved) with
  | error e => exact Keep.refl _ _ _ _
  | ok hs' =>
    simp only []
    have k0 : Keep j a b s { s with holes := hs' } := keep_of_eq _ _ _ _ _ rfl rfl rfl rfl
    split
    · exact k0
    · have hst := metaSetReserved_start sl nr
      have k1 := keep_setSlot_ne j a b { s with holes := hs' } idx (some (metaSetReserved sl nr)) hj
      cases hw : (({ s with holes := hs' } : Db).setSlot idx (some (metaSetReserved sl nr))).dataWrite ((metaSetReserved sl nr).md.start + wo) d with
      | none => exact k0.trans k1
      | some s3 =>
        simp only []
        exact ((k0.trans k1).trans (keep_dataWrite j a b _ s3 _ _ hw (by rw [hst]; exact hav))).trans (keep_finishWrite _ _ _ _ _ _ _ _ _ hj)

theorem keep_placeRelocation (j a b : Nat) (s s' : Db) (nr ns : Nat) (hb : b ≤ s.fileLen) (hp : s.placeRelocation nr = .ok (s', ns)) :
    Keep j a b s s' := by
  unfold Db.placeRelocation at hp
  cases hbf : bestFit s.holes nr with
  | some hstart =>
    simp only [hbf] at hp
    cases hrc : removeOrCompress s.holes hstart nr with
    | error e => simp [hrc] at hp
    | ok hs =>
      simp only [hrc, Except.ok.injEq, Prod.mk.injEq] at hp
      obtain ⟨rfl, rfl⟩ := hp
      exact keep_of_eq _ _ _ _ _ rfl rfl rfl rfl
  | none =>
    simp only [hbf, Except.ok.injEq, Prod.mk.injEq] at hp
    obtain ⟨rfl, rfl⟩ := hp
    have k0 : Keep j a b s { s with reserved := s.reserved ++ [(s.layoutLen, nr)] } := keep_of_eq _ _ _ _ _ rfl rfl rfl rfl
    exact k0.trans (keep_setMinLen j a b _ _ hb)

theorem keep_writeRelocate (j a b : Nat) (p : Db) (idx : Nat) (sl : Slot) (d : List UInt8) (wo nl nr cl ns : Nat) (hj : j ≠ idx)
    (hav1 : ns + cl ≤ a ∨ b ≤ ns) (hav2 : ns + wo + d.length ≤ a ∨ b ≤ ns + wo) :
    Keep j a b p (p.writeRelocate idx sl d wo nl nr cl ns).1 := by
  unfold Db.writeRelocate
  cases hc : p.dataCopy sl.md.start ns cl with
  | error o => exact Keep.refl _ _ _ _
  | ok s1 =>
    simp only []
    have k1 := keep_dataCopy j a b p s1 _ _ _ hc hav1
    cases hw : s1.dataWrite (ns + wo) d with
    | none => exact k1
    | some s2 =>
      simp only []
      have k2 := k1.trans (keep_dataWrite j a b s1 s2 _ _ hw hav2)
      have hl : Keep j a b s2 (s2.layoutRemoveRegion idx sl.md.start sl.md.reserved).1 := by
        unfold Db.layoutRemoveRegion
        simp only []
        split
        · split <;> exact keep_of_eq _ _ _ _ _ rfl rfl rfl rfl
        · exact keep_of_eq _ _ _ _ _ rfl rfl rfl rfl
      split
      · exact k2.trans hl
      · have k3 := k2.trans hl
        split
        · exact k3.trans (keep_of_eq _ _ _ _ _ rfl rfl rfl rfl)
        · split
          · exact k3.trans (keep_of_eq _ _ _ _ _ rfl rfl rfl rfl)
          · refine k3.trans (Keep.trans (keep_of_eq _ _ _ _ _ rfl rfl rfl rfl) (keep_writeIfDirty_ne j a b _ idx _ hj))

end AnyDB.C05r
