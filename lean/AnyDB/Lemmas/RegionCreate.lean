import AnyDB.Lemmas.RegionQuiet
namespace AnyDB.C01r
open AnyDB Conc Db C02r Mem

/-! ## lookups agree -/

theorem findIdx?_congr {α β : Type} (l1 : List α) (l2 : List β) (p : α → Bool) (q : β → Bool) (hl : l1.length = l2.length)
    (h : ∀ j (h1 : j < l1.length) (h2 : j < l2.length), p l1[j] = q l2[j]) : l1.findIdx? p = l2.findIdx? q := by
  induction l1 generalizing l2 with
  | nil => cases l2 with
    | nil => rfl
    | cons b t => simp at hl
  | cons a t ih =>
    cases l2 with
    | nil => simp at hl
    | cons b t2 =>
      simp only [List.findIdx?_cons]
      have h0 := h 0 (by simp) (by simp)
      simp only [List.getElem_cons_zero] at h0
      rw [h0]
      split
      · rfl
      · rw [ih t2 (by simpa using hl) (fun j h1 h2 => by
          have := h (j + 1) (by simp; omega) (by simp; omega)
          simpa using this)]

/-- per index: the slot is live iff the reference has an entry, and the names agree -/
theorem rel_entry (s : Db) (r : Ref) (hrel : Rel s r) (j : Nat) (h1 : j < s.slots.length) (h2 : j < r.length) :
    (s.slots[j] = none ↔ r[j] = none) ∧ ∀ sl e, s.slots[j] = some sl → r[j] = some e → sl.md.id = e.1 := by
  have hv := hrel.2 j
  unfold viewAt Db.slot? at hv
  rw [List.getElem?_eq_getElem h1, List.getElem?_eq_getElem h2] at hv
  cases ha : s.slots[j] <;> cases hb : r[j] <;> simp [ha, hb, liftE] at hv ⊢
  exact hv.1

theorem rel_findId (s : Db) (r : Ref) (hrel : Rel s r) (id : RegionId) : s.findId id = refFind r id := by
  unfold Db.findId refFind
  apply findIdx?_congr _ _ _ _ hrel.1.symm
  intro j h1 h2
  obtain ⟨e1, e2⟩ := rel_entry s r hrel j h1 h2
  cases ha : s.slots[j] with
  | none => rw [e1.mp ha]
  | some sl =>
    cases hb : r[j] with
    | none => rw [e1.mpr hb] at ha; cases ha
    | some e => simp only; rw [e2 sl e ha hb]

theorem rel_findFree (s : Db) (r : Ref) (hrel : Rel s r) : s.slots.findIdx? (·.isNone) = r.findIdx? (·.isNone) := by
  apply findIdx?_congr _ _ _ _ hrel.1.symm
  intro j h1 h2
  obtain ⟨e1, _⟩ := rel_entry s r hrel j h1 h2
  cases ha : s.slots[j] with
  | none => rw [e1.mp ha]; rfl
  | some sl =>
    cases hb : r[j] with
    | none => rw [e1.mpr hb] at ha; cases ha
    | some e => rfl

theorem findId_slot (s : Db) (id : RegionId) (idx : Nat) (h : s.findId id = some idx) : ∃ sl, s.slot? idx = some sl ∧ sl.md.id = id := by
  unfold Db.findId at h
  obtain ⟨hi, hp, _⟩ := List.findIdx?_eq_some_iff_getElem.mp h
  cases hx : s.slots[idx] with
  | none => simp [hx] at hp
  | some sl =>
    simp [hx] at hp
    exact ⟨sl, by unfold Db.slot?; rw [List.getElem?_eq_getElem hi, hx]; rfl, hp⟩

/-! ## creation -/

/-- the state after a new, empty region was entered in slot `idx` (the first free slot, else a new one) -/
theorem rel_added (s s' : Db) (r : Ref) (id : RegionId) (sl : Slot) (hrel : Rel s r) (hinv : RInv s) (hlay : LInv s')
    (hid : sl.md.id = id) (hlen : sl.md.len = 0)
    (hslots : s'.slots = match s.slots.findIdx? (·.isNone) with | some i => s.slots.set i (some sl) | none => s.slots ++ [some sl])
    (hm1 : s.mem.size ≤ s'.mem.size) (hm2 : ∀ x, x < s.mem.size → s'.mem.get? x = s.mem.get? x) :
    Rel s' (match r.findIdx? (·.isNone) with | some i => r.set i (some (id, [])) | none => r ++ [some (id, [])]) ∧ RInv s' := by
  have hnew : ∀ j, s'.slot? j = some sl → viewAt s' j = some (liftE (id, [])) := by
    intro j hj
    unfold viewAt; rw [hj]; simp only [Option.map_some, liftE, hid, hlen]; rfl
  have hold : ∀ j slj, s.slot? j = some slj → s'.slot? j = some slj → viewAt s' j = viewAt s j := by
    intro j slj h1 h2
    unfold viewAt; rw [h1, h2]
    simp only [Option.map_some, Option.some.injEq, Prod.mk.injEq, true_and]
    have hb := hinv.bnd j slj h1
    exact read_congr _ _ _ _ (fun i hi => hm2 _ (by omega))
  have hbnd : ∀ j slj, s.slot? j = some slj → slj.md.len ≤ slj.md.reserved ∧ (0 < slj.md.len → slj.md.start + slj.md.len ≤ s'.mem.size) := by
    intro j slj h1
    have := hinv.bnd j slj h1
    exact ⟨this.1, fun h0 => by have := this.2 h0; omega⟩
  rw [← rel_findFree s r hrel]
  cases hfi : s.slots.findIdx? (·.isNone) with
  | some i =>
    rw [hfi] at hslots
    simp only at hslots ⊢
    obtain ⟨hi, hp, _⟩ := List.findIdx?_eq_some_iff_getElem.mp hfi
    have hnone : s.slot? i = none := by
      unfold Db.slot?; rw [List.getElem?_eq_getElem hi]
      cases hx : s.slots[i] with
      | none => rfl
      | some v => simp [hx] at hp
    have hsi := slot_set_eq s s' i sl hslots hi
    refine ⟨⟨by rw [List.length_set, hrel.1, hslots, List.length_set], fun j => ?_⟩, ⟨hlay, fun j slj hj => ?_⟩⟩
    · by_cases hj : j = i
      · subst hj
        rw [List.getElem?_set_self (by rw [hrel.1]; exact hi), hnew j hsi]; rfl
      · rw [List.getElem?_set_ne (Ne.symm hj), ← hrel.2 j]
        have hsj := slot_set_ne s s' i j _ hslots hj
        cases hc : s.slot? j with
        | none => unfold viewAt; rw [hsj, hc]; rfl
        | some slj => exact hold j slj hc (by rw [hsj, hc])
    · by_cases hj' : j = i
      · subst hj'
        rw [hsi] at hj; cases hj
        rw [hlen]; exact ⟨Nat.zero_le _, fun h => by omega⟩
      · rw [slot_set_ne s s' i j _ hslots hj'] at hj
        exact hbnd j slj hj
  | none =>
    rw [hfi] at hslots
    simp only at hslots ⊢
    have hlast : s'.slot? s.slots.length = some sl := by
      unfold Db.slot?; rw [hslots, List.getElem?_append_right (Nat.le_refl _)]; simp
    have hlt : ∀ j, j < s.slots.length → s'.slot? j = s.slot? j := by
      intro j hj; unfold Db.slot?; rw [hslots, List.getElem?_append_left hj]
    refine ⟨⟨by rw [List.length_append, hrel.1, hslots, List.length_append]; rfl, fun j => ?_⟩, ⟨hlay, fun j slj hj => ?_⟩⟩
    · by_cases hj : j < s.slots.length
      · rw [List.getElem?_append_left (by rw [hrel.1]; exact hj), ← hrel.2 j]
        cases hc : s.slot? j with
        | none => unfold viewAt; rw [hlt j hj, hc]; rfl
        | some slj => exact hold j slj hc (by rw [hlt j hj, hc])
      · by_cases hj2 : j = s.slots.length
        · subst hj2
          rw [hnew _ hlast, List.getElem?_append_right (by rw [hrel.1]; exact Nat.le_refl _), hrel.1]
          simp
        · have hgt : s.slots.length < j := by omega
          unfold viewAt Db.slot?
          rw [hslots, List.getElem?_eq_none (by simp; omega), List.getElem?_eq_none (by simp; rw [hrel.1]; omega)]; rfl
    · by_cases hj1 : j < s.slots.length
      · rw [hlt j hj1] at hj; exact hbnd j slj hj
      · by_cases hj2 : j = s.slots.length
        · subst hj2
          rw [hlast] at hj; cases hj
          rw [hlen]; exact ⟨Nat.zero_le _, fun h => by omega⟩
        · unfold Db.slot? at hj
          rw [hslots, List.getElem?_eq_none (by simp; omega)] at hj; cases hj


/-- what a successful creation of a new name leaves behind -/
theorem create_shape (s : Db) (id : RegionId) (hf : s.findId id = none) (hnp : ¬IsPanic (s.create id).2)
    (hne : ∀ k, (s.create id).2 ≠ .err k) :
    ∃ sl : Slot, sl.md.id = id ∧ sl.md.len = 0 ∧
      (s.create id).1.slots = (match s.slots.findIdx? (·.isNone) with | some i => s.slots.set i (some sl) | none => s.slots ++ [some sl]) ∧
      s.mem.size ≤ (s.create id).1.mem.size ∧ ∀ x, x < s.mem.size → (s.create id).1.mem.get? x = s.mem.get? x := by
  unfold Db.create at hnp hne ⊢
  simp only [hf] at hnp hne ⊢
  generalize hs0 : (if (bestFit s.holes Gen.PAGE_SIZE).isNone = true then s.setMinLen (s.layoutLen + Gen.PAGE_SIZE) else s) = s0 at hnp hne ⊢
  have h0 : s0.slots = s.slots ∧ s.mem.size ≤ s0.mem.size ∧ ∀ x, x < s.mem.size → s0.mem.get? x = s.mem.get? x := by
    rw [← hs0]; split
    · exact setMinLen_shape _ _
    · exact ⟨rfl, Nat.le_refl _, fun _ _ => rfl⟩
  have key : ∀ (s1 : Db) (start : Nat), s1.slots = s0.slots → s1.mem = s0.mem →
      ¬IsPanic (if (!idValid id) = true then (s1, Out.panic "validate_id") else
          (let idx := match s1.slots.findIdx? (·.isNone) with | some i => i | none => s1.slots.length
           let s2 := s1.regionsSetMinSlots (idx + 1)
           let sl : Slot := { md := { start := start, len := 0, reserved := Gen.PAGE_SIZE, id := id }, st := .needsWrite, dmin := USIZE_MAX, dmax := 0 }
           let s3 := if idx < s2.slots.length then s2.setSlot idx (some sl) else { s2 with slots := s2.slots ++ [some sl] }
           ({ s3 with regions := s3.regions ++ [(start, idx)] }, Out.okN idx))).2 →
      ∃ sl : Slot, sl.md.id = id ∧ sl.md.len = 0 ∧
        (if (!idValid id) = true then (s1, Out.panic "validate_id") else
          (let idx := match s1.slots.findIdx? (·.isNone) with | some i => i | none => s1.slots.length
           let s2 := s1.regionsSetMinSlots (idx + 1)
           let sl : Slot := { md := { start := start, len := 0, reserved := Gen.PAGE_SIZE, id := id }, st := .needsWrite, dmin := USIZE_MAX, dmax := 0 }
           let s3 := if idx < s2.slots.length then s2.setSlot idx (some sl) else { s2 with slots := s2.slots ++ [some sl] }
           ({ s3 with regions := s3.regions ++ [(start, idx)] }, Out.okN idx))).1.slots =
          (match s.slots.findIdx? (·.isNone) with | some i => s.slots.set i (some sl) | none => s.slots ++ [some sl]) ∧
        s.mem.size ≤ (if (!idValid id) = true then (s1, Out.panic "validate_id") else
          (let idx := match s1.slots.findIdx? (·.isNone) with | some i => i | none => s1.slots.length
           let s2 := s1.regionsSetMinSlots (idx + 1)
           let sl : Slot := { md := { start := start, len := 0, reserved := Gen.PAGE_SIZE, id := id }, st := .needsWrite, dmin := USIZE_MAX, dmax := 0 }
           let s3 := if idx < s2.slots.length then s2.setSlot idx (some sl) else { s2 with slots := s2.slots ++ [some sl] }
           ({ s3 with regions := s3.regions ++ [(start, idx)] }, Out.okN idx))).1.mem.size ∧
        ∀ x, x < s.mem.size → (if (!idValid id) = true then (s1, Out.panic "validate_id") else
          (let idx := match s1.slots.findIdx? (·.isNone) with | some i => i | none => s1.slots.length
           let s2 := s1.regionsSetMinSlots (idx + 1)
           let sl : Slot := { md := { start := start, len := 0, reserved := Gen.PAGE_SIZE, id := id }, st := .needsWrite, dmin := USIZE_MAX, dmax := 0 }
           let s3 := if idx < s2.slots.length then s2.setSlot idx (some sl) else { s2 with slots := s2.slots ++ [some sl] }
           ({ s3 with regions := s3.regions ++ [(start, idx)] }, Out.okN idx))).1.mem.get? x = s.mem.get? x := by
    intro s1 start hsl hmem hnp
    split
    · rename_i hv
      rw [if_pos hv] at hnp
      exact absurd trivial hnp
    · simp only []
      have hs2slots : ∀ n, (s1.regionsSetMinSlots n).slots = s1.slots := by
        intro n; unfold Db.regionsSetMinSlots; split <;> rfl
      have hs2mem : ∀ n, (s1.regionsSetMinSlots n).mem = s1.mem := by
        intro n; unfold Db.regionsSetMinSlots; split <;> rfl
      have hif : ∀ (c : Prop) [Decidable c] (a b : Db), a.mem = s0.mem → b.mem = s0.mem → (if c then a else b).mem = s0.mem := by
        intro c _ a b h1 h2; split <;> assumption
      generalize hidx : (match s1.slots.findIdx? (·.isNone) with | some i => i | none => s1.slots.length) = idx
      have hm : (if idx < (s1.regionsSetMinSlots (idx + 1)).slots.length then
          (s1.regionsSetMinSlots (idx + 1)).setSlot idx (some { md := { start := start, len := 0, reserved := Gen.PAGE_SIZE, id := id }, st := .needsWrite, dmin := USIZE_MAX, dmax := 0 })
          else { s1.regionsSetMinSlots (idx + 1) with slots := (s1.regionsSetMinSlots (idx + 1)).slots ++ [some { md := { start := start, len := 0, reserved := Gen.PAGE_SIZE, id := id }, st := .needsWrite, dmin := USIZE_MAX, dmax := 0 }] }).mem = s0.mem :=
        hif _ _ _ (by simp only [Db.setSlot, hs2mem, hmem]) (by simp only [hs2mem, hmem])
      refine ⟨{ md := { start := start, len := 0, reserved := Gen.PAGE_SIZE, id := id }, st := .needsWrite, dmin := USIZE_MAX, dmax := 0 },
        rfl, rfl, ?_, ?_, ?_⟩
      · rw [← h0.1, ← hsl]
        cases hfi : s1.slots.findIdx? (·.isNone) with
        | some i =>
          rw [hfi] at hidx; simp only at hidx; subst hidx
          simp only
          obtain ⟨hi, _, _⟩ := List.findIdx?_eq_some_iff_getElem.mp hfi
          rw [if_pos (by rw [hs2slots]; exact hi)]
          simp only [Db.setSlot, hs2slots]
        | none =>
          rw [hfi] at hidx; simp only at hidx; subst hidx
          simp only
          rw [if_neg (by rw [hs2slots]; omega)]
          simp only [hs2slots]
      · show s.mem.size ≤ (Db.mem (if idx < (s1.regionsSetMinSlots (idx + 1)).slots.length then _ else _)).size
        rw [hm]; exact h0.2.1
      · intro x hx
        show (Db.mem (if idx < (s1.regionsSetMinSlots (idx + 1)).slots.length then _ else _)).get? x = _
        rw [hm]; exact h0.2.2 x hx
  cases hb : bestFit s0.holes Gen.PAGE_SIZE with
  | some hstart =>
    simp only [hb] at hnp hne ⊢
    cases hrc : removeOrCompress s0.holes hstart Gen.PAGE_SIZE with
    | error e => simp only [hrc] at hne; exact absurd rfl (hne e)
    | ok hs =>
      simp only [hrc] at hnp ⊢
      exact key { s0 with holes := hs } hstart rfl rfl hnp
  | none =>
    simp only [hb] at hnp ⊢
    exact key s0 s0.layoutLen rfl rfl hnp

theorem rel_create (s : Db) (r : Ref) (id : RegionId) (hrel : Rel s r) (hinv : RInv s) (hnp : ¬IsPanic (s.create id).2)
    (hne : ∀ k, (s.create id).2 ≠ .err k) :
    Rel (s.create id).1 (refStep r (.create id)) ∧ RInv (s.create id).1 := by
  simp only [refStep]
  rw [← rel_findId s r hrel id]
  cases hf : s.findId id with
  | some idx =>
    simp only
    have : s.create id = (s, .okN idx) := by unfold Db.create; rw [hf]
    rw [this]; exact ⟨hrel, hinv⟩
  | none =>
    simp only
    obtain ⟨sl, h1, h2, h3, h4, h5⟩ := create_shape s id hf hnp hne
    have hlay : LInv (s.create id).1 := by
      rcases linv_create s id hinv.lay with hp | hl
      · exact absurd hp hnp
      · exact hl
    exact rel_added s _ r id sl hrel hinv hlay h1 h2 h3 h4 h5

end AnyDB.C01r
