import AnyDB.Lemmas.AllocCnt

/-!
The layout invariant of a rawdb state (`LInv`): no byte of the file belongs to two extents (region reservations,
relocation targets, holes, pending holes), all extents have positive size, and `Layout::start_to_region` agrees with
the region slots.  `layoutLen_ge` / `free_from_len`: `Layout::len()` lies at or beyond everything claimed.
`linv_congr`: the invariant looks at a state only through its layout view.
-/
namespace AnyDB.C02r
open AnyDB Conc Db

/-! ## the extents of a database state -/

def extOf (sl : Slot) : E := (sl.md.start, sl.md.reserved)
def exts (slots : List (Option Slot)) : List E := slots.filterMap (fun o => o.map extOf)
def claimedDb (s : Db) : List E := exts s.slots ++ s.reserved ++ s.holes ++ s.pending

theorem exts_cons_some (sl : Slot) (t : List (Option Slot)) : exts (some sl :: t) = extOf sl :: exts t := rfl
theorem exts_cons_none (t : List (Option Slot)) : exts (none :: t) = exts t := rfl

theorem cnt_exts_set_some (slots : List (Option Slot)) (idx : Nat) (old new : Slot) (x : Nat)
    (h : slots[idx]? = some (some old)) :
    cnt (exts (slots.set idx (some new))) x + ind (extOf old) x = cnt (exts slots) x + ind (extOf new) x := by
  induction slots generalizing idx with
  | nil => simp at h
  | cons a t ih =>
    cases idx with
    | zero =>
      simp at h; subst h
      simp only [List.set_cons_zero, exts_cons_some, cnt_cons]; omega
    | succ k =>
      simp at h
      simp only [List.set_cons_succ]
      cases a with
      | none => simp only [exts_cons_none]; exact ih k h
      | some b => simp only [exts_cons_some, cnt_cons]; have := ih k h; omega

theorem cnt_exts_set_none (slots : List (Option Slot)) (idx : Nat) (old : Slot) (x : Nat)
    (h : slots[idx]? = some (some old)) :
    cnt (exts (slots.set idx none)) x + ind (extOf old) x = cnt (exts slots) x := by
  induction slots generalizing idx with
  | nil => simp at h
  | cons a t ih =>
    cases idx with
    | zero =>
      simp at h; subst h
      simp only [List.set_cons_zero, exts_cons_some, exts_cons_none, cnt_cons]; omega
    | succ k =>
      simp at h
      simp only [List.set_cons_succ]
      cases a with
      | none => simp only [exts_cons_none]; exact ih k h
      | some b => simp only [exts_cons_some, cnt_cons]; have := ih k h; omega

theorem cnt_exts_fill (slots : List (Option Slot)) (idx : Nat) (new : Slot) (x : Nat)
    (h : slots[idx]? = some none) :
    cnt (exts (slots.set idx (some new))) x = cnt (exts slots) x + ind (extOf new) x := by
  induction slots generalizing idx with
  | nil => simp at h
  | cons a t ih =>
    cases idx with
    | zero =>
      simp at h; subst h
      simp only [List.set_cons_zero, exts_cons_some, exts_cons_none, cnt_cons]; omega
    | succ k =>
      simp at h
      simp only [List.set_cons_succ]
      cases a with
      | none => simp only [exts_cons_none]; exact ih k h
      | some b => simp only [exts_cons_some, cnt_cons]; have := ih k h; omega

theorem exts_append (a b : List (Option Slot)) : exts (a ++ b) = exts a ++ exts b := by
  unfold exts; simp

theorem mem_exts (slots : List (Option Slot)) (e : E) : e ∈ exts slots ↔ ∃ (idx : Nat) (sl : Slot), slots[idx]? = some (some sl) ∧ extOf sl = e := by
  unfold exts
  constructor
  · intro h
    obtain ⟨o, ho, he⟩ := List.mem_filterMap.mp h
    cases o with
    | none => simp at he
    | some sl =>
      obtain ⟨i, hi, hget⟩ := List.mem_iff_getElem.mp ho
      exact ⟨i, sl, by rw [List.getElem?_eq_getElem hi, hget], by simpa using he⟩
  · rintro ⟨idx, sl, h1, h2⟩
    refine List.mem_filterMap.mpr ⟨some sl, ?_, by simpa using h2⟩
    exact List.mem_of_getElem? h1


theorem slot_iff (s : Db) (idx : Nat) (sl : Slot) : s.slot? idx = some sl ↔ s.slots[idx]? = some (some sl) := by
  unfold Db.slot?
  cases h : s.slots[idx]? with
  | none => simp
  | some o => cases o <;> simp

/-- the slots as far as the layout is concerned: `(start, reserved)` per live slot -/
def vs (s : Db) : List (Option E) := s.slots.map (fun o => o.map extOf)

theorem exts_vs (s : Db) : exts s.slots = (vs s).filterMap id := by
  unfold exts vs; rw [List.filterMap_map]; rfl

theorem vs_get (s : Db) (idx : Nat) (e : E) :
    (vs s)[idx]? = some (some e) ↔ ∃ sl, s.slot? idx = some sl ∧ extOf sl = e := by
  unfold vs
  rw [List.getElem?_map]
  constructor
  · intro h
    cases hs : s.slots[idx]? with
    | none => simp [hs] at h
    | some o =>
      cases o with
      | none => simp [hs] at h
      | some sl => simp [hs] at h; exact ⟨sl, (slot_iff s idx sl).mpr hs, h⟩
  · rintro ⟨sl, h1, h2⟩
    rw [(slot_iff s idx sl).mp h1]; simp [h2]

/-- the layout invariant: no byte in two extents, positive sizes, and the start map agrees with the slots -/
structure LInv (s : Db) : Prop where
  one : One (claimedDb s)
  pos : Pos (claimedDb s)
  reg1 : ∀ (idx st r : Nat), (vs s)[idx]? = some (some (st, r)) → (st, idx) ∈ s.regions
  reg2 : ∀ (st idx : Nat), (st, idx) ∈ s.regions → ∃ r, (vs s)[idx]? = some (some (st, r))

/-- `LInv` looks at a state only through its layout view -/
theorem linv_congr (s s' : Db) (h1 : vs s' = vs s) (h2 : s'.regions = s.regions) (h3 : s'.reserved = s.reserved)
    (h4 : s'.holes = s.holes) (h5 : s'.pending = s.pending) (h : LInv s) : LInv s' := by
  have hc : claimedDb s' = claimedDb s := by unfold claimedDb; rw [exts_vs, exts_vs, h1, h3, h4, h5]
  exact ⟨by rw [hc]; exact h.one, by rw [hc]; exact h.pos, by rw [h1, h2]; exact h.reg1, by rw [h1, h2]; exact h.reg2⟩

theorem two_cover (l : List E) (a b : E) (x : Nat) (ha : a ∈ l) (hb : b ∈ l) (hne : a ≠ b) : ind a x + ind b x ≤ cnt l x := by
  have h1 := cnt_erase_ind l a x ha
  have hb' : b ∈ l.erase a := (List.mem_erase_of_ne (Ne.symm hne)).mpr hb
  have h2 := cnt_erase_ind (l.erase a) b x hb'
  omega

theorem stop_le (c : List E) (ho : One c) (hp : Pos c) (e y : E) (he : e ∈ c) (hy : y ∈ c) (hle : e.1 ≤ y.1) :
    e.1 + e.2 ≤ y.1 + y.2 := by
  by_cases heq : e = y
  · rw [heq]; exact Nat.le_refl _
  · by_cases hgt : e.1 + e.2 ≤ y.1 + y.2
    · exact hgt
    · exfalso
      have h2 := two_cover c e y y.1 he hy heq
      have h1 := ho y.1
      have hy0 := hp y hy
      simp only [ind] at h2
      have c1 : e.1 ≤ y.1 ∧ y.1 < e.1 + e.2 := by omega
      have c2 : y.1 ≤ y.1 ∧ y.1 < y.1 + y.2 := by omega
      simp only [c1, c2, and_self, if_true] at h2
      omega

theorem lastOf_spec (l : List E) (y : E) (h : lastOf l = some y) : y ∈ l ∧ ∀ e ∈ l, e.1 ≤ y.1 := by
  induction l generalizing y with
  | nil => simp [lastOf] at h
  | cons a t ih =>
    simp only [lastOf] at h
    cases ht : lastOf t with
    | none =>
      simp only [ht] at h
      cases h
      have : t = [] := by
        cases t with
        | nil => rfl
        | cons b r => simp only [lastOf] at ht; cases h2 : lastOf r <;> simp [h2] at ht <;> (split at ht <;> cases ht)
      subst this
      exact ⟨List.mem_cons_self .., by intro e he; simp at he; rw [he]; exact Nat.le_refl _⟩
    | some z =>
      simp only [ht] at h
      obtain ⟨i1, i2⟩ := ih z ht
      split at h
      · cases h
        exact ⟨List.mem_cons_of_mem _ i1, by
          intro e he
          rcases List.mem_cons.mp he with h1 | h1
          · rw [h1]; omega
          · exact i2 e h1⟩
      · cases h
        exact ⟨List.mem_cons_self .., by
          intro e he
          rcases List.mem_cons.mp he with h1 | h1
          · rw [h1]; exact Nat.le_refl _
          · have := i2 e h1; omega⟩

theorem lastOf_none (l : List E) (h : lastOf l = none) : l = [] := by
  cases l with
  | nil => rfl
  | cons a t => simp only [lastOf] at h; cases h2 : lastOf t <;> simp [h2] at h <;> (split at h <;> cases h)


theorem mem_claimed (s : Db) (e : E) :
    e ∈ claimedDb s ↔ e ∈ exts s.slots ∨ e ∈ s.reserved ∨ e ∈ s.holes ∨ e ∈ s.pending := by
  unfold claimedDb; simp [List.mem_append, or_assoc]

/-- `Layout::len()` is at or beyond the end of everything claimed -/
theorem layoutLen_ge (s : Db) (h : LInv s) (e : E) (he : e ∈ claimedDb s) : e.1 + e.2 ≤ s.layoutLen := by
  unfold Db.layoutLen
  simp only []
  have viaList : ∀ (l : List E), (∀ a ∈ l, a ∈ claimedDb s) → e ∈ l →
      ∃ ya yb, lastOf l = some (ya, yb) ∧ e.1 + e.2 ≤ ya + yb := by
    intro l hsub hel
    cases hl : lastOf l with
    | none => rw [lastOf_none l hl] at hel; cases hel
    | some y =>
      obtain ⟨y1, y2⟩ := lastOf_spec l y hl
      have := stop_le (claimedDb s) h.one h.pos e y (hsub e hel) (hsub y y1) (y2 e hel)
      exact ⟨y.1, y.2, rfl, this⟩
  rcases (mem_claimed s e).mp he with h1 | h1 | h1 | h1
  · -- a region: through the start map
    obtain ⟨idx, sl, hs, rfl⟩ := (mem_exts s.slots e).mp h1
    have hv : (vs s)[idx]? = some (some (sl.md.start, sl.md.reserved)) :=
      (vs_get s idx _).mpr ⟨sl, (slot_iff s idx sl).mpr hs, rfl⟩
    have hreg := h.reg1 idx _ _ hv
    cases hl : lastOf s.regions with
    | none => rw [lastOf_none s.regions hl] at hreg; cases hreg
    | some y =>
      obtain ⟨y1, y2⟩ := lastOf_spec s.regions y hl
      obtain ⟨st, li⟩ := y
      obtain ⟨r', hv'⟩ := h.reg2 st li y1
      obtain ⟨sl', hs', hst⟩ := (vs_get s li _).mp hv'
      have hle : sl.md.start ≤ st := y2 _ hreg
      have hmem' : extOf sl' ∈ claimedDb s :=
        (mem_claimed s _).mpr (Or.inl ((mem_exts s.slots _).mpr ⟨li, sl', (slot_iff s li sl').mp hs', rfl⟩))
      have hst1 : sl'.md.start = st := by simp only [extOf, Prod.mk.injEq] at hst; exact hst.1
      have := stop_le (claimedDb s) h.one h.pos (extOf sl) (extOf sl') he hmem' (by simp only [extOf]; omega)
      simp only [extOf] at this
      have hres : s.reservedOfIdx li = sl'.md.reserved := by unfold Db.reservedOfIdx; rw [hs']
      simp only [hres, extOf]
      omega
  · obtain ⟨ya, yb, hy, hle⟩ := viaList s.reserved (fun a ha => (mem_claimed s a).mpr (Or.inr (Or.inl ha))) h1
    rw [hy]; simp only []; omega
  · obtain ⟨ya, yb, hy, hle⟩ := viaList s.holes (fun a ha => (mem_claimed s a).mpr (Or.inr (Or.inr (Or.inl ha)))) h1
    rw [hy]; simp only []; omega
  · obtain ⟨ya, yb, hy, hle⟩ := viaList s.pending (fun a ha => (mem_claimed s a).mpr (Or.inr (Or.inr (Or.inr ha)))) h1
    rw [hy]; simp only []; omega

theorem cnt_zero_of_stops (l : List E) (x : Nat) (h : ∀ e ∈ l, e.1 + e.2 ≤ x) : cnt l x = 0 := by
  induction l with
  | nil => rfl
  | cons a t ih =>
    have := h a (List.mem_cons_self ..)
    simp only [cnt_cons, ind]
    rw [ih (fun e he => h e (List.mem_cons_of_mem _ he))]
    have : ¬(a.1 ≤ x ∧ x < a.1 + a.2) := by omega
    simp [this]

/-- nothing is claimed at or beyond `Layout::len()` -/
theorem free_from_len (s : Db) (h : LInv s) (x : Nat) (hx : s.layoutLen ≤ x) : cnt (claimedDb s) x = 0 :=
  cnt_zero_of_stops _ x (fun e he => by have := layoutLen_ge s h e he; omega)

end AnyDB.C02r
