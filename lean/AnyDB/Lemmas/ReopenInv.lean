import AnyDB.Lemmas.ReopenState
namespace AnyDB.C01r
open AnyDB Conc Db C02r Mem

theorem reopen_slot_some (s : Db) (n : Nat) (hf : FInv s) (hr : RInv s) (ha : Al s)
    (hw : ∀ idx sl, s.slot? idx = some sl → sl.st ≠ .needsWrite) (hok : (s.reopen n).2 = .ok) (idx : Nat) (sl' : Slot)
    (h : (s.reopen n).1.slot? idx = some sl') : ∃ sl, s.slot? idx = some sl ∧ sl' = cleanOf sl := by
  rw [(reopen_slot s n hf hr ha hw hok idx).1] at h
  cases hs : s.slot? idx with
  | none => rw [hs] at h; cases h
  | some sl => rw [hs] at h; simp only [Option.map_some, Option.some.injEq] at h; exact ⟨sl, rfl, h.symm⟩

/-- **every invariant holds again after a reopen** (from a state in which every live region has been written at least once) -/
theorem reopen_inv (s : Db) (n : Nat) (hf : FInv s) (hr : RInv s) (ha : Al s) (hi : InF s)
    (hw : ∀ idx sl, s.slot? idx = some sl → sl.st ≠ .needsWrite) :
    (s.reopen n).2 = .ok ∧ RInv (s.reopen n).1 ∧ Acc (s.reopen n).1 ∧ Al (s.reopen n).1 ∧ InF (s.reopen n).1 ∧ FInv (s.reopen n).1 := by
  obtain ⟨hok, hl, hacc⟩ := reopen_ok s n hf hr ha hw
  have hsl := fun idx => reopen_slot s n hf hr ha hw hok idx
  have hsome := reopen_slot_some s n hf hr ha hw hok
  have hholes := reopen_holes s n hf hr ha hw
  obtain ⟨_, hrf, hlen, hsize, hfl, hres, hpen⟩ := hsl 0
  have hext : ∀ e ∈ exts (s.reopen n).1.slots, ∃ j sl, s.slot? j = some sl ∧ e = (sl.md.start, sl.md.reserved) := by
    intro e he
    obtain ⟨idx, sl', h1, h2⟩ := (mem_exts _ e).mp he
    obtain ⟨sl, s1, s2⟩ := hsome idx sl' ((slot_iff _ idx sl').mpr h1)
    exact ⟨idx, sl, s1, by rw [← h2, s2]; rfl⟩
  have alNil : ∀ l : List E, l = [] → AlL l := fun l h e he => by rw [h] at he; cases he
  have inNil : ∀ (l : List E) (m : Nat), l = [] → InL l m := fun l m h e he => by rw [h] at he; cases he
  refine ⟨hok, ⟨hl, ?_⟩, hacc, ?_, ?_, ?_⟩
  · -- contents inside reservation and file
    intro idx sl' h
    obtain ⟨sl, s1, s2⟩ := hsome idx sl' h
    have hb := hr.bnd idx sl s1
    rw [s2]
    exact ⟨hb.1, fun hp => Nat.le_trans (hb.2 hp) hsize⟩
  · -- page alignment
    refine (al_parts _).mpr ⟨?_, alNil _ hres, ?_, alNil _ hpen⟩
    · intro e he
      obtain ⟨j, sl, s1, rfl⟩ := hext e he
      exact alE_slot s ha j sl s1
    · intro e he
      obtain ⟨a, ⟨j2, sl2, s2, b⟩⟩ := hholes e he
      have h2 := alE_slot s ha j2 sl2 s2
      unfold AlE at h2 ⊢
      rcases a with a | ⟨j1, sl1, s1, a⟩
      · simp only [Gen.PAGE_SIZE] at *; omega
      · have h1 := alE_slot s ha j1 sl1 s1
        unfold AlE at h1
        simp only [Gen.PAGE_SIZE] at *; omega
  · -- inside the file
    refine ⟨hfl hi.1, (inf_parts _ _).mpr ⟨?_, inNil _ _ hres, ?_, inNil _ _ hpen⟩⟩
    · intro e he
      obtain ⟨j, sl, s1, rfl⟩ := hext e he
      exact Nat.le_trans (inE_slot s hi j sl s1) hsize
    · intro e he
      obtain ⟨_, ⟨j2, sl2, s2, b⟩⟩ := hholes e he
      have := inE_slot s hi j2 sl2 s2
      omega
  · -- the metadata file agrees with the slots read from it
    refine ⟨fun idx hd => ?_, fun idx sl' hs' => ?_⟩
    · rw [hrf]
      rw [(hsl idx).1] at hd
      cases hs : s.slot? idx with
      | none => exact hf.dead idx hs
      | some sl => rw [hs] at hd; cases hd
    · obtain ⟨sl, s1, s2⟩ := hsome idx sl' hs'
      obtain ⟨a, b, _, d⟩ := hf.live idx sl s1
      rw [hrf, s2]
      refine ⟨a, b, fun h => ?_, fun _ => d (hw idx sl s1)⟩
      simp [cleanOf] at h

end AnyDB.C01r
