import AnyDB.Lemmas.RegionFile
/-!
`Layout::from` on the metadata file of a state that satisfies the invariants (`LInv`, `FInv`, alignment, bounds; every live
region written at least once): the regions collected by start (`insertByStart`) form a chain — sorted, non-empty, each starting
at or after the end of the previous one, because live regions are pairwise apart —, so the gap computation never underflows
(`lfs_spec`: no panic), and the holes it creates are exactly the gaps: together with the regions they cover every byte below the
last region's end exactly once (`reopen_layout`, `reopen_ok`).
-/
namespace AnyDB.C02r
open AnyDB Conc Db

/-! # `Layout::from`: the layout rebuilt from the metadata file -/

abbrev T3 := Nat × Nat × Nat   -- (start, slot index, reserved)
def extT (t : T3) : E := (t.1, t.2.2)

/-- the triples form a chain from `p`: each starts at or after the end of the previous one and is non-empty -/
def Chain : Nat → List T3 → Prop
  | _, [] => True
  | p, t :: r => p ≤ t.1 ∧ 0 < t.2.2 ∧ Chain (t.1 + t.2.2) r

def endOf : Nat → List T3 → Nat
  | p, [] => p
  | _, t :: r => endOf (t.1 + t.2.2) r

theorem endOf_ge (p : Nat) (l : List T3) (h : Chain p l) : p ≤ endOf p l := by
  induction l generalizing p with
  | nil => exact Nat.le_refl _
  | cons t r ih =>
    obtain ⟨h1, h2, h3⟩ := h
    have := ih _ h3
    simp only [endOf]; omega

/-- `Layout::from` on a chain: it succeeds, the holes it adds are exactly the gaps — together with the regions they cover every
byte of `[p, end)` exactly once and nothing else -/
theorem lfs_spec (l : List T3) : ∀ (p : Nat) (acc : List E), Chain p l →
    ∃ H, layoutFromSorted l p acc = some (acc ++ H) ∧ Pos H ∧
      ∀ x, cnt H x + cnt (l.map extT) x = ind (p, endOf p l - p) x := by
  induction l with
  | nil =>
    intro p acc _
    refine ⟨[], by simp [layoutFromSorted], (by intro e he; cases he), fun x => ?_⟩
    have he : endOf p [] = p := rfl
    rw [he, ind_neg _ _ _ (by omega)]
    rfl
  | cons t r ih =>
    intro p acc hc
    obtain ⟨st, i, res⟩ := t
    obtain ⟨h1, h2, h3⟩ := hc
    simp only at h1 h2 h3
    have hend := endOf_ge _ _ h3
    have he : endOf p ((st, i, res) :: r) = endOf (st + res) r := rfl
    have hm : ((st, i, res) :: r).map extT = (st, res) :: r.map extT := rfl
    simp only [layoutFromSorted]
    by_cases heq : p = st
    · rw [if_pos heq]
      obtain ⟨H, e1, e2, e3⟩ := ih (st + res) acc h3
      refine ⟨H, e1, e2, fun x => ?_⟩
      have := e3 x
      rw [he, hm, cnt_cons]
      by_cases hx : st ≤ x ∧ x < st + res
      · rw [ind_pos _ _ _ hx]
        rw [ind_neg _ _ _ (by omega)] at this
        rw [ind_pos _ _ _ (by omega)]; omega
      · rw [ind_neg _ _ _ hx]
        by_cases hx2 : st + res ≤ x ∧ x < st + res + (endOf (st + res) r - (st + res))
        · rw [ind_pos _ _ _ hx2] at this; rw [ind_pos _ _ _ (by omega)]; omega
        · rw [ind_neg _ _ _ hx2] at this; rw [ind_neg _ _ _ (by omega)]; omega
    · rw [if_neg heq, if_neg (by omega)]
      obtain ⟨H, e1, e2, e3⟩ := ih (st + res) (acc ++ [(p, st - p)]) h3
      refine ⟨(p, st - p) :: H, by rw [e1, List.append_assoc]; rfl, ?_, fun x => ?_⟩
      · intro e he'
        rcases List.mem_cons.mp he' with h | h
        · rw [h]; simp only; omega
        · exact e2 e h
      · have := e3 x
        rw [he, hm, cnt_cons, cnt_cons]
        by_cases hg : p ≤ x ∧ x < p + (st - p)
        · rw [ind_pos _ _ _ hg, ind_neg _ _ _ (by omega)]
          rw [ind_neg _ _ _ (by omega)] at this
          rw [ind_pos _ _ _ (by omega)]; omega
        · rw [ind_neg _ _ _ hg]
          by_cases hx : st ≤ x ∧ x < st + res
          · rw [ind_pos _ _ _ hx]
            rw [ind_neg _ _ _ (by omega)] at this
            rw [ind_pos _ _ _ (by omega)]; omega
          · rw [ind_neg _ _ _ hx]
            by_cases hx2 : st + res ≤ x ∧ x < st + res + (endOf (st + res) r - (st + res))
            · rw [ind_pos _ _ _ hx2] at this; rw [ind_pos _ _ _ (by omega)]; omega
            · rw [ind_neg _ _ _ hx2] at this; rw [ind_neg _ _ _ (by omega)]; omega

/-- where the holes that `Layout::from` adds lie: each starts at the origin or at the end of a region, and ends where a region starts -/
theorem lfs_holes (l : List T3) : ∀ (p : Nat) (acc H : List E), Chain p l → layoutFromSorted l p acc = some (acc ++ H) →
    ∀ e ∈ H, (e.1 = p ∨ ∃ t ∈ l, e.1 = t.1 + t.2.2) ∧ ∃ t ∈ l, e.1 + e.2 = t.1 := by
  induction l with
  | nil =>
    intro p acc H _ h e he
    simp only [layoutFromSorted, Option.some.injEq] at h
    have : H = [] := by simpa using h.symm
    rw [this] at he; cases he
  | cons t r ih =>
    intro p acc H hc h e he
    obtain ⟨st, i, res⟩ := t
    obtain ⟨h1, h2, h3⟩ := hc
    simp only at h1 h2 h3
    simp only [layoutFromSorted] at h
    by_cases hp : p = st
    · rw [if_pos hp] at h
      obtain ⟨a, b⟩ := ih (st + res) acc H h3 h e he
      refine ⟨?_, ?_⟩
      · rcases a with a | ⟨t', ht', a⟩
        · right; exact ⟨(st, i, res), List.mem_cons_self .., a⟩
        · right; exact ⟨t', List.mem_cons_of_mem _ ht', a⟩
      · obtain ⟨t', ht', b⟩ := b; exact ⟨t', List.mem_cons_of_mem _ ht', b⟩
    · rw [if_neg hp, if_neg (by omega)] at h
      obtain ⟨H', e1, _, _⟩ := lfs_spec r (st + res) (acc ++ [(p, st - p)]) h3
      rw [e1, Option.some.injEq, List.append_assoc, List.append_cancel_left_eq] at h
      rw [← h] at he
      simp only [List.singleton_append, List.mem_cons] at he
      rcases he with rfl | he
      · exact ⟨Or.inl rfl, ⟨(st, i, res), List.mem_cons_self .., by simp only; omega⟩⟩
      · obtain ⟨a, b⟩ := ih (st + res) (acc ++ [(p, st - p)]) H' h3 e1 e he
        refine ⟨?_, ?_⟩
        · rcases a with a | ⟨t', ht', a⟩
          · right; exact ⟨(st, i, res), List.mem_cons_self .., a⟩
          · right; exact ⟨t', List.mem_cons_of_mem _ ht', a⟩
        · obtain ⟨t', ht', b⟩ := b; exact ⟨t', List.mem_cons_of_mem _ ht', b⟩

/-- sorted by start, pairwise apart, non-empty ⇒ a chain -/
theorem chain_of_sorted (l : List T3) (p : Nat) (hs : l.Pairwise (fun a b => a.1 < b.1))
    (ha : l.Pairwise (fun a b => a.1 + a.2.2 ≤ b.1 ∨ b.1 + b.2.2 ≤ a.1)) (hp : ∀ t ∈ l, 0 < t.2.2) (hlo : ∀ t ∈ l, p ≤ t.1) :
    Chain p l := by
  induction l generalizing p with
  | nil => trivial
  | cons t r ih =>
    obtain ⟨s1, s2⟩ := List.pairwise_cons.mp hs
    obtain ⟨a1, a2⟩ := List.pairwise_cons.mp ha
    refine ⟨hlo t (List.mem_cons_self ..), hp t (List.mem_cons_self ..), ih _ s2 a2 (fun x hx => hp x (List.mem_cons_of_mem _ hx)) ?_⟩
    intro b hb
    have := s1 b hb
    have hpb := hp b (List.mem_cons_of_mem _ hb)
    rcases a1 b hb with h | h
    · exact h
    · omega

/-! ## `insertByStart` -/

theorem mem_insertByStart (l : List T3) (t x : T3) (h : x ∈ insertByStart l t) : x = t ∨ x ∈ l := by
  induction l with
  | nil => simp [insertByStart] at h; exact Or.inl h
  | cons a r ih =>
    simp only [insertByStart] at h
    split at h
    · rcases List.mem_cons.mp h with e | e
      · exact Or.inl e
      · exact Or.inr e
    · split at h
      · rcases List.mem_cons.mp h with e | e
        · exact Or.inl e
        · exact Or.inr (List.mem_cons_of_mem _ e)
      · rcases List.mem_cons.mp h with e | e
        · exact Or.inr (by rw [e]; exact List.mem_cons_self ..)
        · rcases ih e with e' | e'
          · exact Or.inl e'
          · exact Or.inr (List.mem_cons_of_mem _ e')

theorem insertByStart_mem_self (l : List T3) (t : T3) : t ∈ insertByStart l t := by
  induction l with
  | nil => simp [insertByStart]
  | cons a r ih =>
    simp only [insertByStart]
    split
    · exact List.mem_cons_self ..
    · split
      · exact List.mem_cons_self ..
      · exact List.mem_cons_of_mem _ ih

theorem insertByStart_keeps (l : List T3) (t y : T3) (hy : y ∈ l) (hne : y.1 ≠ t.1) : y ∈ insertByStart l t := by
  induction l with
  | nil => cases hy
  | cons a r ih =>
    simp only [insertByStart]
    split
    · exact List.mem_cons_of_mem _ hy
    · split
      · rename_i heq
        rcases List.mem_cons.mp hy with e | e
        · rw [e] at hne; exact absurd heq.symm hne
        · exact List.mem_cons_of_mem _ e
      · rcases List.mem_cons.mp hy with e | e
        · rw [e]; exact List.mem_cons_self ..
        · exact List.mem_cons_of_mem _ (ih e)

theorem insertByStart_sorted (l : List T3) (t : T3) (hs : l.Pairwise (fun a b => a.1 < b.1)) :
    (insertByStart l t).Pairwise (fun a b => a.1 < b.1) := by
  induction l with
  | nil => simp [insertByStart]
  | cons a r ih =>
    obtain ⟨s1, s2⟩ := List.pairwise_cons.mp hs
    simp only [insertByStart]
    split
    · rename_i hlt
      refine List.pairwise_cons.mpr ⟨fun b hb => ?_, hs⟩
      rcases List.mem_cons.mp hb with e | e
      · rw [e]; exact hlt
      · have := s1 b e; omega
    · split
      · rename_i _ heq
        exact List.pairwise_cons.mpr ⟨fun b hb => by have := s1 b hb; omega, s2⟩
      · rename_i h1 h2
        refine List.pairwise_cons.mpr ⟨fun b hb => ?_, ih s2⟩
        rcases mem_insertByStart r t b hb with e | e
        · rw [e]; omega
        · exact s1 b e


/-! ## the fold that collects the regions by start -/

/-- the slot list read back, as far as the layout is concerned -/
def tripleAt (L : List (Option Slot)) (i : Nat) : Option T3 := (L[i]?.join).map (fun sl => (sl.md.start, i, sl.md.reserved))

def triplesUpTo (L : List (Option Slot)) (k : Nat) : List T3 :=
  (List.range k).foldl (fun acc i => match (L[i]?).join with
    | some sl => insertByStart acc (sl.md.start, i, sl.md.reserved)
    | none => acc) []

theorem triplesUpTo_succ (L : List (Option Slot)) (k : Nat) :
    triplesUpTo L (k + 1) = (match (L[k]?).join with
      | some sl => insertByStart (triplesUpTo L k) (sl.md.start, k, sl.md.reserved)
      | none => triplesUpTo L k) := by
  unfold triplesUpTo
  rw [List.range_succ, List.foldl_append]; rfl

theorem triples_spec (L : List (Option Slot))
    (hd : ∀ (i j : Nat) (a b : Slot), (L[i]?).join = some a → (L[j]?).join = some b → a.md.start = b.md.start → i = j) (k : Nat) :
    (triplesUpTo L k).Pairwise (fun a b => a.1 < b.1) ∧
    (∀ x ∈ triplesUpTo L k, x.2.1 < k ∧ tripleAt L x.2.1 = some x) ∧
    (∀ i, i < k → ∀ t, tripleAt L i = some t → t ∈ triplesUpTo L k) := by
  induction k with
  | zero => exact ⟨by simp [triplesUpTo], fun x hx => by simp [triplesUpTo] at hx, fun i hi => by omega⟩
  | succ k ih =>
    obtain ⟨i1, i2, i3⟩ := ih
    rw [triplesUpTo_succ]
    cases hk : (L[k]?).join with
    | none =>
      simp only
      refine ⟨i1, fun x hx => ⟨by have := (i2 x hx).1; omega, (i2 x hx).2⟩, fun i hi t ht => ?_⟩
      by_cases hik : i = k
      · subst hik; unfold tripleAt at ht; rw [hk] at ht; cases ht
      · exact i3 i (by omega) t ht
    | some sl =>
      simp only
      refine ⟨insertByStart_sorted _ _ i1, fun x hx => ?_, fun i hi t ht => ?_⟩
      · rcases mem_insertByStart _ _ x hx with e | e
        · rw [e]; exact ⟨by simp, by unfold tripleAt; simp only; rw [hk]; rfl⟩
        · exact ⟨by have := (i2 x e).1; omega, (i2 x e).2⟩
      · by_cases hik : i = k
        · subst hik
          unfold tripleAt at ht; rw [hk] at ht
          simp only [Option.map_some, Option.some.injEq] at ht
          rw [← ht]; exact insertByStart_mem_self _ _
        · have hmem := i3 i (by omega) t ht
          refine insertByStart_keeps _ _ t hmem ?_
          -- a different index cannot have the same start
          unfold tripleAt at ht
          cases hi' : (L[i]?).join with
          | none => rw [hi'] at ht; cases ht
          | some a =>
            rw [hi'] at ht
            simp only [Option.map_some, Option.some.injEq] at ht
            rw [← ht]
            simp only
            intro hst
            exact hik (hd i k a sl hi' hk hst)

/-- two slot lists with the same extents at every index have the same list of extents -/
theorem exts_nil_of_none (l : List (Option Slot)) (h : ∀ i : Nat, (l[i]?).join = none) : exts l = [] := by
  induction l with
  | nil => rfl
  | cons a t ih =>
    have h0 := h 0
    simp at h0
    subst h0
    rw [exts_cons_none]
    exact ih (fun i => by have := h (i + 1); simpa using this)

theorem exts_congr (l1 l2 : List (Option Slot)) (h : ∀ i : Nat, ((l1[i]?).join).map extOf = ((l2[i]?).join).map extOf) : exts l1 = exts l2 := by
  induction l1 generalizing l2 with
  | nil =>
    rw [exts_nil_of_none l2 (fun i => by
      have := h i
      simp at this
      cases hx : (l2[i]?).join with
      | none => rfl
      | some v => rw [hx] at this; simp at this)]
    rfl
  | cons a t ih =>
    cases l2 with
    | nil =>
      rw [exts_nil_of_none (a :: t) (fun i => by
        have := h i
        simp only [List.getElem?_nil, Option.join_none, Option.map_none] at this
        cases hx : ((a :: t)[i]?).join with
        | none => rfl
        | some v => rw [hx] at this; simp at this)]
      rfl
    | cons b t2 =>
      have h0 := h 0
      simp only [List.getElem?_cons_zero, Option.join_some] at h0
      have ht := ih t2 (fun i => by have := h (i + 1); simpa using this)
      cases a with
      | none =>
        cases b with
        | none => rw [exts_cons_none, exts_cons_none, ht]
        | some y => simp at h0
      | some x =>
        cases b with
        | none => simp at h0
        | some y =>
          simp only [Option.map_some, Option.some.injEq] at h0
          rw [exts_cons_some, exts_cons_some, ht, h0]

theorem exists_cover (l : List E) (x : Nat) (h : 0 < cnt l x) : ∃ e ∈ l, ind e x = 1 := by
  induction l with
  | nil => simp [cnt] at h
  | cons a t ih =>
    rw [cnt_cons] at h
    by_cases ha : ind a x = 1
    · exact ⟨a, List.mem_cons_self .., ha⟩
    · have := ind_le_one a x
      obtain ⟨e, he, hx⟩ := ih (by omega)
      exact ⟨e, List.mem_cons_of_mem _ he, hx⟩



/-! ## the reopened database -/

def cleanOf (sl : Slot) : Slot := { md := sl.md, st := .clean, dmin := USIZE_MAX, dmax := 0 }

/-- the slot table `Regions::open` builds from the metadata file -/
def slotsRead (rfile : List (Option Meta)) : List (Option Slot) :=
  rfile.map (fun o => match o with
    | some m => if metaValid m then some ({ md := m, st := .clean, dmin := USIZE_MAX, dmax := 0 } : Slot) else none
    | none => none)

open C01r in
theorem slotsRead_get (s : Db) (hf : FInv s) (hr : RInv s) (ha : Al s)
    (hw : ∀ idx sl, s.slot? idx = some sl → sl.st ≠ .needsWrite) (idx : Nat) :
    ((slotsRead s.rfile)[idx]?).join = (s.slot? idx).map cleanOf := by
  unfold slotsRead
  rw [List.getElem?_map]
  cases hsl : s.slot? idx with
  | none =>
    have := hf.dead idx hsl
    cases hr' : s.rfile[idx]? with
    | none => rfl
    | some o =>
      rw [hr'] at this
      cases o with
      | none => rfl
      | some m => simp at this
  | some sl =>
    obtain ⟨a, b, c, d⟩ := hf.live idx sl hsl
    have hd := d (hw idx sl hsl)
    have hbnd := hr.bnd idx sl hsl
    have hal := alE_slot s ha idx sl hsl
    have hpos : 0 < sl.md.reserved := by
      have hm1 : extOf sl ∈ exts s.slots := (mem_exts s.slots _).mpr ⟨idx, sl, (slot_iff s idx sl).mp hsl, rfl⟩
      exact hr.lay.pos _ ((mem_claimed s _).mpr (Or.inl hm1))
    have hvalid : metaValid sl.md = true := by
      unfold metaValid
      unfold AlE at hal
      simp only [Bool.and_eq_true, decide_eq_true_eq, beq_iff_eq]
      refine ⟨⟨⟨⟨b, hal.1⟩, ?_⟩, hal.2⟩, hbnd.1⟩
      have := hal.2
      simp only [Gen.PAGE_SIZE] at *
      omega
    cases hr' : s.rfile[idx]? with
    | none => rw [hr'] at hd; simp at hd
    | some o =>
      rw [hr'] at hd
      simp only [Option.join_some] at hd
      subst hd
      simp [hvalid, cleanOf]

open C01r in
/-- `Layout::from` cannot fail on what a state of the invariants leaves in its metadata file, and the layout it builds satisfies
the layout invariant again: the regions read back are the live ones, the holes are exactly the gaps between them -/
theorem reopen_layout (s : Db) (hf : FInv s) (hr : RInv s) (ha : Al s)
    (hw : ∀ idx sl, s.slot? idx = some sl → sl.st ≠ .needsWrite) :
    ∃ H, layoutFromSorted (triplesUpTo (slotsRead s.rfile) (slotsRead s.rfile).length) 0 [] = some H ∧
      (∀ (f : Db), f.slots = slotsRead s.rfile →
        f.regions = (triplesUpTo (slotsRead s.rfile) (slotsRead s.rfile).length).map (fun t => (t.1, t.2.1)) →
        f.holes = H → f.reserved = [] → f.pending = [] → LInv f ∧ Acc f) ∧
      (∀ e ∈ H, (e.1 = 0 ∨ ∃ j sl, s.slot? j = some sl ∧ e.1 = sl.md.start + sl.md.reserved) ∧
        ∃ j sl, s.slot? j = some sl ∧ e.1 + e.2 = sl.md.start) := by
  have hL := slotsRead_get s hf hr ha hw
  generalize slotsRead s.rfile = L at hL
  have hlive : ∀ i sl', (L[i]?).join = some sl' → ∃ sl, s.slot? i = some sl ∧ sl'.md = sl.md := by
    intro i sl' h
    rw [hL] at h
    cases hs : s.slot? i with
    | none => rw [hs] at h; cases h
    | some sl => rw [hs] at h; simp only [Option.map_some, Option.some.injEq] at h; exact ⟨sl, rfl, by rw [← h]; rfl⟩
  have hd : ∀ (i j : Nat) (a b : Slot), (L[i]?).join = some a → (L[j]?).join = some b → a.md.start = b.md.start → i = j := by
    intro i j a b h1 h2 h3
    obtain ⟨sa, sa1, sa2⟩ := hlive i a h1
    obtain ⟨sb, sb1, sb2⟩ := hlive j b h2
    exact slot_of_start s hr.lay i j sa.md.start sa.md.reserved sb.md.reserved
      ((vs_get s i _).mpr ⟨sa, sa1, rfl⟩) ((vs_get s j _).mpr ⟨sb, sb1, by simp only [extOf]; rw [← sa2, h3, sb2]⟩)
  obtain ⟨t1, t2, t3⟩ := triples_spec L hd L.length
  generalize hT : triplesUpTo L L.length = T at t1 t2 t3
  -- every triple is a live slot of s
  have hmem : ∀ x ∈ T, ∃ sl, s.slot? x.2.1 = some sl ∧ x = (sl.md.start, x.2.1, sl.md.reserved) := by
    intro x hx
    obtain ⟨_, h2⟩ := t2 x hx
    unfold tripleAt at h2
    cases hj : (L[x.2.1]?).join with
    | none => rw [hj] at h2; cases h2
    | some sl' =>
      rw [hj] at h2
      simp only [Option.map_some, Option.some.injEq] at h2
      obtain ⟨sl, s1, s2⟩ := hlive x.2.1 sl' hj
      exact ⟨sl, s1, by rw [← h2, s2]⟩
  have hposT : ∀ t ∈ T, 0 < t.2.2 := by
    intro t ht
    obtain ⟨sl, s1, s2⟩ := hmem t ht
    rw [s2]; simp only
    have hm1 : extOf sl ∈ exts s.slots := (mem_exts s.slots _).mpr ⟨t.2.1, sl, (slot_iff s _ sl).mp s1, rfl⟩
    exact hr.lay.pos _ ((mem_claimed s _).mpr (Or.inl hm1))
  have hapart : T.Pairwise (fun a b => a.1 + a.2.2 ≤ b.1 ∨ b.1 + b.2.2 ≤ a.1) := by
    refine List.Pairwise.imp_of_mem ?_ t1
    intro a b ha' hb' hlt
    obtain ⟨sa, sa1, sa2⟩ := hmem a ha'
    obtain ⟨sb, sb1, sb2⟩ := hmem b hb'
    have hne : a.2.1 ≠ b.2.1 := by
      intro e
      rw [e] at sa1; rw [sa1] at sb1; cases sb1
      rw [sa2, sb2] at hlt; simp only at hlt; omega
    have := slots_apart s hr.lay a.2.1 b.2.1 sa sb hne sa1 sb1
    rw [sa2, sb2]; exact this
  have hchain := chain_of_sorted T 0 t1 hapart hposT (fun _ _ => Nat.zero_le _)
  obtain ⟨H, e1, e2, e3⟩ := lfs_spec T 0 [] hchain
  rw [List.nil_append] at e1
  have hholes : ∀ e ∈ H, (e.1 = 0 ∨ ∃ j sl, s.slot? j = some sl ∧ e.1 = sl.md.start + sl.md.reserved) ∧
      ∃ j sl, s.slot? j = some sl ∧ e.1 + e.2 = sl.md.start := by
    intro e he
    obtain ⟨a, b⟩ := lfs_holes T 0 [] H hchain (by rw [List.nil_append]; exact e1) e he
    refine ⟨?_, ?_⟩
    · rcases a with a | ⟨t, ht, a⟩
      · exact Or.inl a
      · obtain ⟨sl, s1, s2⟩ := hmem t ht
        right; exact ⟨t.2.1, sl, s1, by rw [a, s2]⟩
    · obtain ⟨t, ht, b⟩ := b
      obtain ⟨sl, s1, s2⟩ := hmem t ht
      exact ⟨t.2.1, sl, s1, by rw [b, s2]⟩
  refine ⟨H, e1, fun f f1 f2 f3 f4 f5 => ?_, hholes⟩
  -- extents of the slots read back = extents of the live slots of s
  have hexts : exts f.slots = exts s.slots := by
    rw [f1]
    apply exts_congr
    intro i
    rw [hL i]
    unfold Db.slot?
    cases (s.slots[i]?).join <;> rfl
  have hone_s : ∀ x, cnt (exts s.slots) x ≤ 1 := by
    intro x; have := hr.lay.one x; unfold claimedDb at this; simp only [cnt_append] at this; omega
  -- a byte covered by a region is covered by a triple
  have hcov : ∀ x, 0 < cnt (exts s.slots) x → 0 < cnt (T.map extT) x := by
    intro x hx
    obtain ⟨e, he, hex⟩ := exists_cover _ x hx
    obtain ⟨i, sl, hi, rfl⟩ := (mem_exts s.slots e).mp he
    have hsl : s.slot? i = some sl := (slot_iff s i sl).mpr hi
    have hLi : (L[i]?).join = some (cleanOf sl) := by rw [hL, hsl]; rfl
    have hil : i < L.length := by
      cases hx' : L[i]? with
      | none => rw [hx'] at hLi; cases hLi
      | some o => rw [List.getElem?_eq_some_iff] at hx'; exact hx'.1
    have hmemT := t3 i hil (sl.md.start, i, sl.md.reserved) (by unfold tripleAt; rw [hLi]; rfl)
    have := ind_le_cnt (T.map extT) (extOf sl) x (List.mem_map.mpr ⟨_, hmemT, rfl⟩)
    omega
  -- and conversely
  have hcov2 : ∀ x, 0 < cnt (T.map extT) x → 0 < cnt (exts s.slots) x := by
    intro x hx
    obtain ⟨e, he, hex⟩ := exists_cover _ x hx
    obtain ⟨t, ht, rfl⟩ := List.mem_map.mp he
    obtain ⟨sl, s1, s2⟩ := hmem t ht
    have hm1 : extOf sl ∈ exts s.slots := (mem_exts s.slots _).mpr ⟨t.2.1, sl, (slot_iff s _ sl).mp s1, rfl⟩
    have := ind_le_cnt _ (extOf sl) x hm1
    have hext : extT t = extOf sl := by rw [s2]; rfl
    rw [hext] at hex
    omega
  have hclaim : ∀ x, cnt (claimedDb f) x = cnt (exts s.slots) x + cnt H x := by
    intro x; unfold claimedDb; rw [hexts, f3, f4, f5]; simp only [cnt_append, cnt]; omega
  have hspec : ∀ x, cnt H x + cnt (T.map extT) x ≤ 1 := fun x => by rw [e3 x]; exact ind_le_one _ x
  refine ⟨⟨fun x => ?_, fun e he => ?_, fun i st r hv => ?_, fun st i hm => ?_⟩, fun x y hxy hy => ?_⟩
  · rw [hclaim]
    have h1 := hone_s x
    have h2 := hspec x
    by_cases hc : 0 < cnt (exts s.slots) x
    · have := hcov x hc; omega
    · omega
  · rcases (mem_claimed f e).mp he with h | h | h | h
    · rw [hexts] at h; exact hr.lay.pos e ((mem_claimed s e).mpr (Or.inl h))
    · rw [f4] at h; cases h
    · rw [f3] at h; exact e2 e h
    · rw [f5] at h; cases h
  · -- a live slot of f is registered under its start
    obtain ⟨sl', hs', hext⟩ := (vs_get f i _).mp hv
    have hLi : (L[i]?).join = some sl' := by unfold Db.slot? at hs'; rw [f1] at hs'; exact hs'
    have hil : i < L.length := by
      cases hx' : L[i]? with
      | none => rw [hx'] at hLi; cases hLi
      | some o => rw [List.getElem?_eq_some_iff] at hx'; exact hx'.1
    have hmemT := t3 i hil (sl'.md.start, i, sl'.md.reserved) (by unfold tripleAt; rw [hLi]; rfl)
    rw [f2]
    simp only [extOf, Prod.mk.injEq] at hext
    exact List.mem_map.mpr ⟨_, hmemT, by simp only; rw [hext.1]⟩
  · rw [f2] at hm
    obtain ⟨t, ht, hte⟩ := List.mem_map.mp hm
    simp only [Prod.mk.injEq] at hte
    obtain ⟨_, h2⟩ := t2 t ht
    unfold tripleAt at h2
    cases hj : (L[t.2.1]?).join with
    | none => rw [hj] at h2; cases h2
    | some sl' =>
      rw [hj] at h2
      simp only [Option.map_some, Option.some.injEq] at h2
      refine ⟨sl'.md.reserved, (vs_get f i _).mpr ⟨sl', ?_, ?_⟩⟩
      · unfold Db.slot?; rw [f1, ← hte.2]; exact hj
      · simp only [extOf, Prod.mk.injEq]; rw [← hte.1, ← h2]; simp
  · rw [hclaim] at hy ⊢
    -- everything claimed lies below the end of the chain; every byte below it is claimed
    have hy' : 0 < cnt H y + cnt (T.map extT) y := by
      by_cases hc : 0 < cnt (exts s.slots) y
      · have := hcov y hc; omega
      · omega
    rw [e3 y] at hy'
    have hyin : 0 ≤ y ∧ y < 0 + (endOf 0 T - 0) := by
      by_cases hc : 0 ≤ y ∧ y < 0 + (endOf 0 T - 0)
      · exact hc
      · rw [ind_neg _ _ _ hc] at hy'; omega
    have hx' := e3 x
    rw [ind_pos _ _ _ (by omega)] at hx'
    by_cases hc : 0 < cnt (T.map extT) x
    · have := hcov2 x hc; omega
    · omega



theorem reopen_eq (s : Db) (n : Nat) :
    s.reopen n =
      (let s0 : Db := if s.fileLen < n then { s with fileLen := n, mem := s.mem.grow n, log := s.log ++ [.setLen .data n, .sync .data] } else s
       match layoutFromSorted (triplesUpTo (slotsRead s0.rfile) (slotsRead s0.rfile).length) 0 [] with
       | none => (s0, .panic "Layout::from")
       | some holes =>
         ({ s0 with slots := slotsRead s0.rfile,
                    regions := (triplesUpTo (slotsRead s0.rfile) (slotsRead s0.rfile).length).map (fun t => (t.1, t.2.1)),
                    holes := holes, reserved := [], pending := [] }, .ok)) := rfl

open C01r in
/-- C02 across a reopen: from every state of the invariants in which every live region has been written at least once,
`Database::open` does not panic in `Layout::from`, and the layout it rebuilds has no byte in two extents, positive extents,
a start map that agrees with the slots, and no unaccounted byte below its end -/
theorem reopen_ok (s : Db) (n : Nat) (hf : FInv s) (hr : RInv s) (ha : Al s)
    (hw : ∀ idx sl, s.slot? idx = some sl → sl.st ≠ .needsWrite) :
    (s.reopen n).2 = .ok ∧ LInv (s.reopen n).1 ∧ Acc (s.reopen n).1 := by
  rw [reopen_eq]
  simp only []
  generalize hs0 : (if s.fileLen < n then ({ s with fileLen := n, mem := s.mem.grow n, log := s.log ++ [.setLen .data n, .sync .data] } : Db) else s) = s0
  have hrf : s0.rfile = s.rfile := by rw [← hs0]; split <;> rfl
  obtain ⟨H, e1, e2, _⟩ := reopen_layout s hf hr ha hw
  rw [← hrf] at e1 e2
  rw [e1]
  simp only
  refine ⟨trivial, ?_⟩
  exact e2 _ rfl rfl rfl rfl rfl

end AnyDB.C02r
