import AnyDB.Lemmas.CrashKeepGrow
namespace AnyDB.C05r
open AnyDB Conc Db C02r C01r Mem

theorem slot_lt' (s : Db) (j : Nat) (sl : Slot) (h : s.slot? j = some sl) : j < s.slots.length := by
  unfold Db.slot? at h
  cases hg : s.slots[j]? with
  | none => rw [hg] at h; cases h
  | some o => rw [List.getElem?_eq_some_iff] at hg; exact hg.1

theorem keep_create (j a b : Nat) (s : Db) (id : RegionId) (slj : Slot) (hsj : s.slot? j = some slj) (hb : b ≤ s.fileLen)
    (hjr : j < s.rfile.length) :
    Keep j a b s (s.create id).1 := by
  unfold Db.create
  cases hf : s.findId id with
  | some i => exact Keep.refl _ _ _ _
  | none =>
    simp only []
    generalize hs0 : (if (bestFit s.holes Gen.PAGE_SIZE).isNone = true then s.setMinLen (s.layoutLen + Gen.PAGE_SIZE) else s) = s0
    have k0 : Keep j a b s s0 := by rw [← hs0]; split; exact keep_setMinLen _ _ _ _ _ hb; exact Keep.refl _ _ _ _
    obtain ⟨slj0, hsj0, _⟩ := md_of_keep k0 slj hsj
    have hjr0 : j < s0.rfile.length := Nat.lt_of_lt_of_le hjr k0.2.2.2
    have key : ∀ (s1 : Db) (start : Nat), Keep j a b s s1 → (∃ x, s1.slot? j = some x) →
        Keep j a b s (if (!idValid id) = true then (s1, Out.panic "validate_id") else
          (let idx := match s1.slots.findIdx? (·.isNone) with | some i => i | none => s1.slots.length
           let s2 := s1.regionsSetMinSlots (idx + 1)
           let sl : Slot := { md := { start := start, len := 0, reserved := Gen.PAGE_SIZE, id := id }, st := .needsWrite, dmin := USIZE_MAX, dmax := 0 }
           let s3 := if idx < s2.slots.length then s2.setSlot idx (some sl) else { s2 with slots := s2.slots ++ [some sl] }
           ({ s3 with regions := s3.regions ++ [(start, idx)] }, Out.okN idx))).1 := by
      intro s1 start k1 hx
      have hjr1 : j < s1.rfile.length := Nat.lt_of_lt_of_le hjr k1.2.2.2
      obtain ⟨x, hx⟩ := hx
      split
      · exact k1
      · simp only []
        generalize hidx : (match s1.slots.findIdx? (·.isNone) with | some i => i | none => s1.slots.length) = idx
        have hjl := slot_lt' s1 j x hx
        have hne : j ≠ idx := by
          intro he
          rw [← hidx] at he
          cases hfi : s1.slots.findIdx? (·.isNone) with
          | none => rw [hfi] at he; simp only [] at he; omega
          | some i =>
            rw [hfi] at he; simp only [] at he
            have := List.findIdx?_eq_some_iff_getElem.mp hfi
            obtain ⟨hlt, hp, _⟩ := this
            unfold Db.slot? at hx
            rw [he, List.getElem?_eq_getElem hlt] at hx
            cases hsl : s1.slots[i] with
            | none => rw [hsl] at hx; cases hx
            | some y => rw [hsl] at hp; simp at hp
        have k2 := k1.trans (keep_regionsSetMinSlots j a b s1 (idx + 1) hjr1)
        have hsl2 : (s1.regionsSetMinSlots (idx + 1)).slots = s1.slots := by unfold Db.regionsSetMinSlots; split <;> rfl
        split
        · exact (k2.trans (keep_setSlot_ne j a b _ idx _ hne)).trans (keep_of_eq _ _ _ _ _ rfl rfl rfl rfl)
        · refine k2.trans ⟨?_, ⟨[], by simp, by simp⟩, Nat.le_refl _, Nat.le_refl _⟩
          unfold Db.slot?
          simp only []
          rw [List.getElem?_append_left (by rw [hsl2]; exact hjl)]
    cases hbf : bestFit s0.holes Gen.PAGE_SIZE with
    | some hstart =>
      simp only []
      cases hrc : removeOrCompress s0.holes hstart Gen.PAGE_SIZE with
      | error e => exact k0
      | ok hs =>
        simp only []
        exact key { s0 with holes := hs } hstart (k0.trans (keep_of_eq _ _ _ _ _ rfl rfl rfl rfl)) ⟨slj0, hsj0⟩
    | none =>
      simp only []
      exact key s0 s0.layoutLen k0 ⟨slj0, hsj0⟩

/-- the request modifies (or may modify) the region called `id` -/
def Touches (id : RegionId) : Op → Prop
  | .write i _ => i = id
  | .writeAt i _ _ => i = id
  | .truncateWrite i _ _ => i = id
  | .truncate i _ => i = id
  | .rename i _ => i = id
  | .remove i => i = id
  | .removeHeld i => i = id
  | .regionFlush i => i = id
  | .retain keep => keep.contains id = false
  | .reopen _ => True
  | _ => False

theorem idx_ne (s : Db) (i : RegionId) (idx j : Nat) (slj : Slot) (hf : s.findId i = some idx) (hsj : s.slot? j = some slj)
    (hne : ¬ i = slj.md.id) : j ≠ idx := by
  obtain ⟨sl, hsl, hi⟩ := findId_slot s i idx hf
  intro he; subst he; rw [hsj] at hsl; cases hsl; exact hne hi.symm

/-- **one request that does not name region `j`**: its metadata stays, and nothing the request stores lands in the pages
that hold its data, nor is the file cut below them -/
theorem keep_step (s : Db) (op : Op) (hinv : RInv s) (hi : InF s) (ha : Al s) (j : Nat) (slj : Slot) (hsj : s.slot? j = some slj)
    (hnt : ¬Touches slj.md.id op) (hjr : j < s.rfile.length) :
    Keep j slj.md.start (slj.md.start + ceilPage slj.md.len) s (step s op).1 := by
  have hbj := hinv.bnd j slj hsj
  have hcr : ceilPage slj.md.len ≤ slj.md.reserved := ceil_le_reserved _ _ hbj.1 (alE_slot s ha j slj hsj).2
  have hb : slj.md.start + ceilPage slj.md.len ≤ slj.md.start + slj.md.reserved := by omega
  have hfile : slj.md.start + ceilPage slj.md.len ≤ s.fileLen := by have := inE_slot s hi j slj hsj; rw [hi.1]; omega
  have hwr : ∀ (i : RegionId) (d : List UInt8) (at_ : Option Nat) (tr : Bool), ¬ i = slj.md.id →
      Keep j slj.md.start (slj.md.start + ceilPage slj.md.len) s (s.withRegion i (fun k => s.writeWith k d at_ tr)).1 := by
    intro i d at_ tr hne
    unfold Db.withRegion
    cases hf : s.findId i with
    | none => exact Keep.refl _ _ _ _
    | some idx => exact keep_writeWith j s hinv hi idx slj d at_ tr hsj (idx_ne s i idx j slj hf hsj hne) _ hb
  cases op with
  | create id => exact keep_create j _ _ s id slj hsj hfile hjr
  | write i d => exact hwr i d none false hnt
  | writeAt i a d => exact hwr i d (some a) false hnt
  | truncateWrite i a d => exact hwr i d (some a) true hnt
  | truncate i n =>
    simp only [step, Db.withRegion]
    cases hf : s.findId i with
    | none => exact Keep.refl _ _ _ _
    | some idx => exact keep_truncate j _ _ s idx n (idx_ne s i idx j slj hf hsj hnt)
  | rename i n =>
    simp only [step, Db.withRegion]
    cases hf : s.findId i with
    | none => exact Keep.refl _ _ _ _
    | some idx => exact keep_rename j _ _ s idx n (idx_ne s i idx j slj hf hsj hnt)
  | remove i => exact keep_removeId j _ _ s i false slj hsj (fun h => hnt h.symm)
  | removeHeld i => exact keep_removeId j _ _ s i true slj hsj (fun h => hnt h.symm)
  | retain ids =>
    refine keep_retain j _ _ s ids slj hsj ?_
    cases hc : ids.contains slj.md.id with
    | true => rfl
    | false => exact absurd hc hnt
  | flush => exact keep_flush j _ _ s
  | regionFlush i =>
    simp only [step, Db.withRegion]
    cases hf : s.findId i with
    | none => exact Keep.refl _ _ _ _
    | some idx => exact keep_regionFlush j _ _ s idx (idx_ne s i idx j slj hf hsj hnt)
  | compact =>
    simp only [step]
    unfold Db.compact
    have kf := keep_flush j slj.md.start (slj.md.start + ceilPage slj.md.len) s
    have hinvf : RInv s.flush.1 := by
      refine ⟨linv_flush s hinv.lay, ?_⟩
      intro idx sl' hs'
      have km := (keep_flush idx 0 0 s).1
      rw [hs'] at km
      cases hso : s.slot? idx with
      | none => rw [hso] at km; cases km
      | some sl =>
        rw [hso] at km
        simp only [Option.map_some, Option.some.injEq] at km
        have hbo := hinv.bnd idx sl hso
        have hsz : s.flush.1.mem.size = s.mem.size := by
          rw [flush_eq]; exact (ms_flushPre s).2
        rw [km, hsz]; exact hbo
    obtain ⟨slj', hsj', hmd⟩ := md_of_keep kf slj hsj
    generalize s.flush = r at kf hinvf hsj'
    obtain ⟨s1, o⟩ := r
    simp only [] at kf hinvf hsj' ⊢
    have kp := keep_punchHoles j s1 hinvf slj' hsj' (by rw [hmd]; exact hcr)
    rw [hmd] at kp
    cases o <;> first | exact kf | exact kf.trans kp
  | reopen n => exact absurd trivial hnt
  | setMinLen n => exact keep_setMinLen j _ _ s n hfile
  | setMinRegions n =>
    simp only [step, Db.setMinRegions]
    exact (keep_regionsSetMinSlots j _ _ s n hjr).trans (keep_setMinLen j _ _ _ _ (by unfold Db.regionsSetMinSlots; split <;> exact hfile))

end AnyDB.C05r
