import AnyDB.Lemmas.CrashKeep
namespace AnyDB.C05r
open AnyDB Conc Db C02r C01r Mem

theorem ceil_le_reserved (len reserved : Nat) (h1 : len ≤ reserved) (h2 : reserved % Gen.PAGE_SIZE = 0) : ceilPage len ≤ reserved := by
  unfold ceilPage; simp only [Gen.PAGE_SIZE] at *; omega

/-- peel `emit`s of events that store nothing off the goal state -/
macro "peel_emits" : tactic =>
  `(tactic| repeat (first
      | exact Keep.refl _ _ _ _
      | assumption
      | refine Keep.trans ?_ (keep_emit _ _ _ _ _ (by trivial))))

/-! ## metadata-only requests on another region -/

theorem keep_truncate (j a b : Nat) (s : Db) (idx n : Nat) (hj : j ≠ idx) : Keep j a b s (s.truncate idx n).1 := by
  unfold Db.truncate
  split
  · exact Keep.refl _ _ _ _
  · split
    · exact Keep.refl _ _ _ _
    · split
      · exact Keep.refl _ _ _ _
      · exact keep_writeIfDirty_ne _ _ _ _ _ _ hj

theorem keep_rename (j a b : Nat) (s : Db) (idx : Nat) (nid : RegionId) (hj : j ≠ idx) : Keep j a b s (s.rename idx nid).1 := by
  unfold Db.rename
  split
  · exact Keep.refl _ _ _ _
  · split
    · exact Keep.refl _ _ _ _
    · split
      · exact Keep.refl _ _ _ _
      · exact keep_writeIfDirty_ne _ _ _ _ _ _ hj

theorem keep_regionFlush (j a b : Nat) (s : Db) (idx : Nat) (hj : j ≠ idx) : Keep j a b s (s.regionFlush idx).1 := by
  unfold Db.regionFlush
  cases hs : s.slot? idx with
  | none => exact Keep.refl _ _ _ _
  | some sl =>
    simp only []
    have k1 := fun o => keep_setSlot_ne j a b s idx o hj
    by_cases hb : sl.dmin < sl.dmax
    · simp only [hb, if_true, Option.isSome_some]
      have k1' := k1 (some { md := sl.md, st := sl.st, dmin := USIZE_MAX, dmax := 0 })
      cases hst : sl.st
      · peel_emits; exact k1 _
      · refine Keep.trans ?_ (keep_emit _ _ _ _ _ trivial)
        refine Keep.trans ?_ (keep_emit _ _ _ _ _ trivial)
        refine Keep.trans ?_ (keep_setSlot_ne j a b _ idx _ hj)
        peel_emits; exact k1 _
      · peel_emits; exact k1 _
    · simp only [hb, if_false, Option.isSome_none, Bool.false_eq_true]
      have k1' := k1 (some sl)
      cases hst : sl.st
      · exact k1'
      · refine Keep.trans ?_ (keep_emit _ _ _ _ _ trivial)
        refine Keep.trans ?_ (keep_emit _ _ _ _ _ trivial)
        refine Keep.trans ?_ (keep_setSlot_ne j a b _ idx _ hj)
        peel_emits
      · exact k1'

/-! ## removal of another region -/

theorem keep_remove (j a b : Nat) (s : Db) (idx : Nat) (x : Bool) (hj : j ≠ idx) : Keep j a b s (s.remove idx x).1 := by
  unfold Db.remove
  cases hs : s.slot? idx with
  | none => exact Keep.refl _ _ _ _
  | some sl =>
    simp only []
    split
    · exact Keep.refl _ _ _ _
    · have hl : Keep j a b s (s.layoutRemoveRegion idx sl.md.start sl.md.reserved).1 := by
        unfold Db.layoutRemoveRegion
        simp only []
        split
        · split
          · exact keep_of_eq _ _ _ _ _ rfl rfl rfl rfl
          · exact keep_of_eq _ _ _ _ _ rfl rfl rfl rfl
        · exact keep_of_eq _ _ _ _ _ rfl rfl rfl rfl
      split
      · exact hl
      · refine hl.trans ((keep_setSlot_ne j a b _ idx none hj).trans ?_)
        exact ⟨rfl, ⟨[_], rfl, by intro e he; rw [List.mem_singleton] at he; rw [he]; exact Ne.symm hj⟩, Nat.le_refl _, by simp⟩

theorem md_of_keep {j a b : Nat} {s s' : Db} (h : Keep j a b s s') (slj : Slot) (hs : s.slot? j = some slj) :
    ∃ slj', s'.slot? j = some slj' ∧ slj'.md = slj.md := by
  have := h.1
  rw [hs] at this
  cases h' : s'.slot? j with
  | none => rw [h'] at this; cases this
  | some x => rw [h'] at this; simp at this; exact ⟨x, rfl, this⟩

theorem keep_removeId (j a b : Nat) (s : Db) (id : RegionId) (x : Bool) (slj : Slot) (hs : s.slot? j = some slj) (hid : slj.md.id ≠ id) :
    Keep j a b s (s.removeId id x).1 := by
  unfold Db.removeId
  cases hf : s.findId id with
  | none => exact Keep.refl _ _ _ _
  | some idx =>
    simp only []
    obtain ⟨sl, hsl, hi⟩ := findId_slot s id idx hf
    exact keep_remove j a b s idx x (by intro he; subst he; rw [hs] at hsl; cases hsl; exact hid hi)

theorem keep_retain (j a b : Nat) (s : Db) (keep : List RegionId) (slj : Slot) (hs : s.slot? j = some slj) (hk : keep.contains slj.md.id = true) :
    Keep j a b s (s.retain keep).1 := by
  unfold Db.retain
  have hv : ∀ i ∈ (List.range s.slots.length).filter (fun i => match s.slot? i with | some sl => !keep.contains sl.md.id | none => false), j ≠ i := by
    intro i hi hji
    subst hji
    have := (List.mem_filter.mp hi).2
    simp only [hs, hk] at this
    cases this
  generalize (List.range s.slots.length).filter _ = victims at hv
  suffices hh : ∀ (acc : Db × Out), Keep j a b s acc.1 →
      Keep j a b s (victims.foldl (fun (acc : Db × Out) i => match acc.2 with | .ok => acc.1.remove i false | _ => acc) acc).1 from hh (s, .ok) (Keep.refl _ _ _ _)
  induction victims with
  | nil => intro acc h; exact h
  | cons v t ih =>
    intro acc h
    simp only [List.foldl_cons]
    have hvj := hv v (List.mem_cons_self ..)
    have iht := ih (fun i hi => hv i (List.mem_cons_of_mem _ hi))
    split
    · exact iht _ (h.trans (keep_remove j a b acc.1 v false hvj))
    · exact iht _ h

/-! ## flush: no store at all -/

theorem keep_takeAllDirty (j a b : Nat) (s : Db) : Keep j a b s s.takeAllDirty := by
  refine ⟨?_, ⟨[], by simp [Db.takeAllDirty], by simp⟩, Nat.le_refl _, Nat.le_refl _⟩
  unfold Db.takeAllDirty Db.slot?
  simp only [List.getElem?_map]
  cases s.slots[j]? with
  | none => rfl
  | some o =>
    cases o with
    | none => rfl
    | some sl => simp only [Option.map_some, Option.join_some]; split <;> rfl

theorem keep_markCleanStep (j a b : Nat) (s : Db) (x : Nat × Slot × Option (Nat × Nat)) : Keep j a b s (s.markCleanStep x) := by
  unfold Db.markCleanStep
  cases hs : s.slot? x.1 with
  | none => exact Keep.refl _ _ _ _
  | some sl => exact keep_setSlot_md j a b s x.1 sl _ hs rfl

theorem keep_markCleanFold (j a b : Nat) (l : List (Nat × Slot × Option (Nat × Nat))) (s : Db) : Keep j a b s (l.foldl Db.markCleanStep s) := by
  induction l generalizing s with
  | nil => exact Keep.refl _ _ _ _
  | cons x t ih => simp only [List.foldl_cons]; exact (keep_markCleanStep j a b s x).trans (ih _)

theorem keep_flushPre (j a b : Nat) (s : Db) : Keep j a b s (flushPre s) := by
  unfold flushPre
  simp only []
  have h0 := keep_takeAllDirty j a b s
  split
  · split
    · exact h0
    · peel_emits
  · refine Keep.trans ?_ (keep_markCleanFold j a b _ _)
    refine Keep.trans ?_ (keep_emit _ _ _ _ _ trivial)
    refine Keep.trans ?_ (keep_emit _ _ _ _ _ trivial)
    refine Keep.trans ?_ (keep_emit _ _ _ _ _ trivial)
    split
    · peel_emits
    · exact h0

theorem keep_flush (j a b : Nat) (s : Db) : Keep j a b s s.flush.1 := by
  rw [flush_eq]
  exact (keep_flushPre j a b s).trans (keep_of_eq _ _ _ _ _ rfl rfl rfl rfl)

end AnyDB.C05r
