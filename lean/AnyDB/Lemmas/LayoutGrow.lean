import AnyDB.Lemmas.LayoutOps

/-!
Operations of the rawdb model against the layout invariant, part 2: the growing paths of `write_with` — extending the
last region in place (`is_last_anything` ⇒ nothing is claimed behind it), expanding into the adjacent hole, and
relocating (target from the best-fitting hole or from the end, recorded as a reservation; then the move).
-/
namespace AnyDB.C02r
open AnyDB Conc Db

/-! ## growth in place -/

theorem cnt_nil (x : Nat) : cnt ([] : List E) x = 0 := rfl
theorem ind_pos (a b x : Nat) (h : a ≤ x ∧ x < a + b) : ind (a, b) x = 1 := by simp [ind, h]
theorem ind_neg (a b x : Nat) (h : ¬(a ≤ x ∧ x < a + b)) : ind (a, b) x = 0 := by simp [ind, h]
theorem ind_le_one (e : E) (x : Nat) : ind e x ≤ 1 := by unfold ind; split <;> omega


/-- slot `idx` changes its reservation but not its start; the other lists may change too -/
theorem linv_same_start (s f : Db) (h : LInv s) (idx : Nat) (sl new : Slot) (hs : s.slot? idx = some sl)
    (f1 : f.slots = s.slots.set idx (some new)) (hst : new.md.start = sl.md.start) (f2 : f.regions = s.regions)
    (hone : One (claimedDb f)) (hpos : Pos (claimedDb f)) : LInv f := by
  have hv : (vs s)[idx]? = some (some (sl.md.start, sl.md.reserved)) := (vs_get s idx _).mpr ⟨sl, hs, rfl⟩
  have hlen : idx < (vs s).length := by
    have := hv; rw [List.getElem?_eq_some_iff] at this; exact this.1
  have hvf : vs f = (vs s).set idx (some (sl.md.start, new.md.reserved)) := by
    unfold vs; rw [f1]; simp [List.map_set, extOf, hst]
  refine ⟨hone, hpos, ?_, ?_⟩
  · intro i st r hi
    rw [hvf] at hi
    rw [f2]
    by_cases hii : i = idx
    · subst hii
      rw [List.getElem?_set_self hlen] at hi
      simp only [Option.some.injEq, Prod.mk.injEq] at hi
      rw [← hi.1]
      exact h.reg1 i _ _ hv
    · rw [List.getElem?_set_ne (Ne.symm hii)] at hi
      exact h.reg1 i st r hi
  · intro st i hm
    rw [f2] at hm
    obtain ⟨r, hr⟩ := h.reg2 st i hm
    rw [hvf]
    by_cases hii : i = idx
    · subst hii
      rw [hv] at hr
      simp only [Option.some.injEq, Prod.mk.injEq] at hr
      exact ⟨new.md.reserved, by rw [List.getElem?_set_self hlen, hr.1]⟩
    · exact ⟨r, by rw [List.getElem?_set_ne (Ne.symm hii)]; exact hr⟩

/-- `is_last_anything`: nothing is claimed behind the region -/
theorem isLast_free (s : Db) (h : LInv s) (idx : Nat) (sl : Slot) (hs : s.slot? idx = some sl)
    (hl : s.isLastAnything idx = true) : ∀ x, sl.md.start + sl.md.reserved ≤ x → cnt (claimedDb s) x = 0 := by
  have hv : (vs s)[idx]? = some (some (sl.md.start, sl.md.reserved)) := (vs_get s idx _).mpr ⟨sl, hs, rfl⟩
  have hme : extOf sl ∈ claimedDb s := ext_mem s idx _ hv
  unfold Db.isLastAnything at hl
  cases hlr : lastOf s.regions with
  | none => simp [hlr] at hl
  | some y =>
    obtain ⟨ls, li⟩ := y
    simp only [hlr, Bool.and_eq_true, beq_iff_eq] at hl
    obtain ⟨⟨⟨hli, hh⟩, hr⟩, hp⟩ := hl
    subst hli
    obtain ⟨y1, y2⟩ := lastOf_spec s.regions _ hlr
    obtain ⟨r', hv'⟩ := h.reg2 ls li y1
    rw [hv] at hv'
    simp only [Option.some.injEq, Prod.mk.injEq] at hv'
    have hls : ls = sl.md.start := hv'.1.symm
    intro x hx
    apply cnt_zero_of_stops
    intro e he
    have key : e.1 ≤ sl.md.start → e.1 + e.2 ≤ x := by
      intro hle
      have := stop_le (claimedDb s) h.one h.pos e (extOf sl) he hme (by simp only [extOf]; exact hle)
      simp only [extOf] at this; omega
    rcases (mem_claimed s e).mp he with h1 | h1 | h1 | h1
    · obtain ⟨j, slj, hj, rfl⟩ := (mem_exts s.slots e).mp h1
      have hvj : (vs s)[j]? = some (some (slj.md.start, slj.md.reserved)) := (vs_get s j _).mpr ⟨slj, (slot_iff s j slj).mpr hj, rfl⟩
      have := y2 _ (h.reg1 j _ _ hvj)
      exact key (by simp only [extOf]; simp only at this; omega)
    · cases hlx : lastOf s.reserved with
      | none => rw [lastOf_none _ hlx] at h1; cases h1
      | some z =>
        obtain ⟨z1, z2⟩ := lastOf_spec s.reserved z hlx
        rw [hlx] at hr; simp only [decide_eq_true_eq] at hr
        have := z2 e h1
        exact key (by omega)
    · cases hlx : lastOf s.holes with
      | none => rw [lastOf_none _ hlx] at h1; cases h1
      | some z =>
        obtain ⟨z1, z2⟩ := lastOf_spec s.holes z hlx
        rw [hlx] at hh; simp only [decide_eq_true_eq] at hh
        have := z2 e h1
        exact key (by omega)
    · cases hlx : lastOf s.pending with
      | none => rw [lastOf_none _ hlx] at h1; cases h1
      | some z =>
        obtain ⟨z1, z2⟩ := lastOf_spec s.pending z hlx
        rw [hlx] at hp; simp only [decide_eq_true_eq] at hp
        have := z2 e h1
        exact key (by omega)


theorem growReserved_ge (fuel cur need n : Nat) (h : growReserved fuel cur need = some n) : cur ≤ n := by
  induction fuel generalizing cur with
  | zero => simp [growReserved] at h
  | succ k ih =>
    simp only [growReserved] at h
    split at h
    · split at h
      · cases h
      · have := ih _ h; omega
    · cases h; exact Nat.le_refl _

theorem extOf_metaSetReserved (sl : Slot) (n : Nat) : extOf (metaSetReserved sl n) = (sl.md.start, n) := by
  unfold metaSetReserved extOf; split
  · rename_i h; simp [h]
  · rfl

theorem mem_claimed_set (s f : Db) (idx : Nat) (new : Slot) (f1 : f.slots = s.slots.set idx (some new)) (e : E)
    (he : e ∈ exts f.slots) : e = extOf new ∨ e ∈ exts s.slots := by
  obtain ⟨j, slj, hj, rfl⟩ := (mem_exts f.slots e).mp he
  rw [f1] at hj
  by_cases hji : j = idx
  · subst hji
    rw [List.getElem?_set] at hj
    split at hj
    · split at hj
      · simp at hj; left; rw [hj]
      · simp at hj
    · exact absurd rfl ‹¬(j = j)›
  · rw [List.getElem?_set_ne (Ne.symm hji)] at hj
    right; exact (mem_exts s.slots _).mpr ⟨j, slj, hj, rfl⟩

/-- the last region of the file grows in place -/
theorem linv_extendLast (s : Db) (h : LInv s) (idx : Nat) (sl : Slot) (hs : s.slot? idx = some sl)
    (hl : s.isLastAnything idx = true) (nr : Nat) (hr : sl.md.reserved ≤ nr) :
    LInv (s.setSlot idx (some (metaSetReserved sl nr))) := by
  have hsl := (slot_iff s idx sl).mp hs
  have hfree := isLast_free s h idx sl hs hl
  have hme : extOf sl ∈ claimedDb s := (mem_claimed s _).mpr (Or.inl ((mem_exts s.slots _).mpr ⟨idx, sl, hsl, rfl⟩))
  have hp0 := h.pos _ hme
  simp only [extOf] at hp0
  have hst : (metaSetReserved sl nr).md.start = sl.md.start := by
    have := extOf_metaSetReserved sl nr; simp only [extOf, Prod.mk.injEq] at this; exact this.1
  refine linv_same_start s _ h idx sl _ hs rfl hst rfl ?_ ?_
  · intro x
    have h1 := h.one x
    have e := cnt_exts_set_some s.slots idx sl (metaSetReserved sl nr) x hsl
    rw [extOf_metaSetReserved] at e
    unfold claimedDb at h1 ⊢
    simp only [cnt_append, Db.setSlot] at h1 ⊢
    have e' : cnt (exts (s.slots.set idx (some (metaSetReserved sl nr)))) x + ind (sl.md.start, sl.md.reserved) x
        = cnt (exts s.slots) x + ind (sl.md.start, nr) x := e
    by_cases hx : sl.md.start + sl.md.reserved ≤ x
    · have := hfree x hx
      unfold claimedDb at this
      simp only [cnt_append] at this
      rw [ind_neg _ _ _ (by omega)] at e'
      have := ind_le_one (sl.md.start, nr) x
      omega
    · by_cases hsx : sl.md.start ≤ x
      · rw [ind_pos _ _ _ (by omega), ind_pos _ _ _ (by omega)] at e'; omega
      · rw [ind_neg _ _ _ (by omega), ind_neg _ _ _ (by omega)] at e'; omega
  · intro e he
    rcases (mem_claimed _ e).mp he with h1 | h1 | h1 | h1
    · rcases mem_claimed_set s _ idx _ rfl e h1 with h2 | h2
      · rw [h2, extOf_metaSetReserved]; simp only; omega
      · exact h.pos e ((mem_claimed s e).mpr (Or.inl h2))
    · exact h.pos e ((mem_claimed s e).mpr (Or.inr (Or.inl h1)))
    · exact h.pos e ((mem_claimed s e).mpr (Or.inr (Or.inr (Or.inl h1))))
    · exact h.pos e ((mem_claimed s e).mpr (Or.inr (Or.inr (Or.inr h1))))

/-- the tail of every growing write: data written, slot marked dirty, length set -/
theorem same_finishWrite (s : Db) (idx : Nat) (old sl : Slot) (a b c : Nat) (h : s.slot? idx = some old)
    (he : extOf sl = extOf old) : Same s (s.finishWrite idx sl a b c) := by
  unfold Db.finishWrite
  exact same_writeIfDirty s idx old _ h (by rw [extOf_metaSetLen, extOf_markDirty, he])

theorem linv_writeExtendLast (s : Db) (h : LInv s) (idx : Nat) (sl : Slot) (d : List UInt8) (wo nl nr : Nat)
    (hs : s.slot? idx = some sl) (hl : s.isLastAnything idx = true) (hr : sl.md.reserved ≤ nr) :
    LInv (s.writeExtendLast idx sl d wo nl nr).1 := by
  unfold Db.writeExtendLast
  split
  · exact h
  · simp only []
    have h1 := linv_extendLast s h idx sl hs hl nr hr
    have hslot : (s.setSlot idx (some (metaSetReserved sl nr))).slot? idx = some (metaSetReserved sl nr) := by
      rw [slot_iff]; simp only [Db.setSlot]
      have := (slot_iff s idx sl).mp hs
      rw [List.getElem?_set_self (by rw [List.getElem?_eq_some_iff] at this; exact this.1)]
    have h2 := same_setMinLen (s.setSlot idx (some (metaSetReserved sl nr))) ((metaSetReserved sl nr).md.start + nr)
    cases hw : ((s.setSlot idx (some (metaSetReserved sl nr))).setMinLen ((metaSetReserved sl nr).md.start + nr)).dataWrite
        ((metaSetReserved sl nr).md.start + wo) d with
    | none => exact h2.linv h1
    | some s3 =>
      simp only
      have h3 := same_dataWrite _ s3 _ _ hw
      obtain ⟨old, ho, he⟩ := same_slot _ s3 (h2.trans h3) idx _ hslot
      exact ((h2.trans h3).trans (same_finishWrite s3 idx old _ _ _ _ ho he.symm)).linv h1


/-! ## growth into the adjacent hole -/

theorem holes_pos_one (s : Db) (h : LInv s) : Pos s.holes ∧ One s.holes := by
  refine ⟨fun e he => h.pos e ((mem_claimed s e).mpr (Or.inr (Or.inr (Or.inl he)))), fun x => ?_⟩
  have := h.one x; unfold claimedDb at this; simp only [cnt_append] at this; omega

theorem ind_adjacent (a r n x : Nat) (h : r ≤ n) : ind (a, n) x = ind (a, r) x + ind (a + r, n - r) x := by
  by_cases c1 : a ≤ x ∧ x < a + n <;> by_cases c2 : a ≤ x ∧ x < a + r <;> by_cases c3 : a + r ≤ x ∧ x < a + r + (n - r)
  all_goals first
    | (rw [ind_pos _ _ _ c1, ind_pos _ _ _ c2, ind_pos _ _ _ c3]; omega)
    | (rw [ind_pos _ _ _ c1, ind_pos _ _ _ c2, ind_neg _ _ _ c3])
    | (rw [ind_pos _ _ _ c1, ind_neg _ _ _ c2, ind_pos _ _ _ c3])
    | (rw [ind_pos _ _ _ c1, ind_neg _ _ _ c2, ind_neg _ _ _ c3]; omega)
    | (rw [ind_neg _ _ _ c1, ind_pos _ _ _ c2, ind_pos _ _ _ c3]; omega)
    | (rw [ind_neg _ _ _ c1, ind_pos _ _ _ c2, ind_neg _ _ _ c3]; omega)
    | (rw [ind_neg _ _ _ c1, ind_neg _ _ _ c2, ind_pos _ _ _ c3]; omega)
    | (rw [ind_neg _ _ _ c1, ind_neg _ _ _ c2, ind_neg _ _ _ c3])

/-- the hole behind the region gives up its front; the region's reservation takes it -/
theorem linv_expand (s : Db) (h : LInv s) (idx : Nat) (sl : Slot) (hs : s.slot? idx = some sl) (nr gap : Nat) (hs' : List E)
    (hr : sl.md.reserved < nr) (hg : alGet s.holes (sl.md.start + sl.md.reserved) = some gap)
    (hrc : removeOrCompress s.holes (sl.md.start + sl.md.reserved) (nr - sl.md.reserved) = .ok hs') :
    LInv { s with holes := hs' } ∧ LInv (({ s with holes := hs' } : Db).setSlot idx (some (metaSetReserved sl nr))) := by
  have hsl := (slot_iff s idx sl).mp hs
  obtain ⟨hp, ho⟩ := holes_pos_one s h
  have hrc' := fun x => removeOrCompress_cnt s.holes hs' _ _ gap hp ho hg hrc x
  have hposhs : Pos hs' := (hrc' 0).2.2 (by omega)
  have hmid : LInv { s with holes := hs' } := by
    refine ⟨?_, ?_, h.reg1, h.reg2⟩
    · intro x
      have := h.one x
      have := (hrc' x).2.1
      unfold claimedDb at *
      simp only [cnt_append] at *
      omega
    · intro e he
      rcases (mem_claimed _ e).mp he with h1 | h1 | h1 | h1
      · exact h.pos e ((mem_claimed s e).mpr (Or.inl h1))
      · exact h.pos e ((mem_claimed s e).mpr (Or.inr (Or.inl h1)))
      · exact hposhs e h1
      · exact h.pos e ((mem_claimed s e).mpr (Or.inr (Or.inr (Or.inr h1))))
  refine ⟨hmid, ?_⟩
  have hst : (metaSetReserved sl nr).md.start = sl.md.start := by
    have := extOf_metaSetReserved sl nr; simp only [extOf, Prod.mk.injEq] at this; exact this.1
  have hs2 : ({ s with holes := hs' } : Db).slot? idx = some sl := hs
  refine linv_same_start _ _ hmid idx sl _ hs2 rfl hst rfl ?_ ?_
  · intro x
    have h1 := h.one x
    have e := cnt_exts_set_some s.slots idx sl (metaSetReserved sl nr) x hsl
    rw [extOf_metaSetReserved] at e
    have e' : cnt (exts (s.slots.set idx (some (metaSetReserved sl nr)))) x + ind (sl.md.start, sl.md.reserved) x
        = cnt (exts s.slots) x + ind (sl.md.start, nr) x := e
    have e2 := (hrc' x).2.1
    have e3 := ind_adjacent sl.md.start sl.md.reserved nr x (by omega)
    unfold claimedDb at h1 ⊢
    simp only [cnt_append, Db.setSlot] at h1 ⊢
    omega
  · intro e he
    rcases (mem_claimed _ e).mp he with h1 | h1 | h1 | h1
    · rcases mem_claimed_set { s with holes := hs' } _ idx _ rfl e h1 with h2 | h2
      · rw [h2, extOf_metaSetReserved]; simp only; omega
      · exact h.pos e ((mem_claimed s e).mpr (Or.inl h2))
    · exact h.pos e ((mem_claimed s e).mpr (Or.inr (Or.inl h1)))
    · exact hposhs e h1
    · exact h.pos e ((mem_claimed s e).mpr (Or.inr (Or.inr (Or.inr h1))))

theorem linv_writeExpand (s : Db) (h : LInv s) (idx : Nat) (sl : Slot) (d : List UInt8) (wo nl nr : Nat)
    (hs : s.slot? idx = some sl) (hr : sl.md.reserved < nr) (hc : s.canExpand sl nr = true) :
    LInv (s.writeExpand idx sl d wo nl nr).1 := by
  unfold Db.canExpand at hc
  cases hg : alGet s.holes (sl.md.start + sl.md.reserved) with
  | none => simp [hg] at hc
  | some gap =>
    unfold Db.writeExpand
    cases hrc : removeOrCompress s.holes (sl.md.start + sl.md.reserved) (nr - sl.md.reserved) with
    | error e => exact h
    | ok hs' =>
      simp only
      obtain ⟨h1, h2⟩ := linv_expand s h idx sl hs nr gap hs' hr hg hrc
      split
      · exact h1
      · have hslot : (({ s with holes := hs' } : Db).setSlot idx (some (metaSetReserved sl nr))).slot? idx = some (metaSetReserved sl nr) := by
          rw [slot_iff]; simp only [Db.setSlot]
          have := (slot_iff s idx sl).mp hs
          rw [List.getElem?_set_self (by rw [List.getElem?_eq_some_iff] at this; exact this.1)]
        cases hw : (({ s with holes := hs' } : Db).setSlot idx (some (metaSetReserved sl nr))).dataWrite
            ((metaSetReserved sl nr).md.start + wo) d with
        | none => exact h2
        | some s3 =>
          simp only
          have h3 := same_dataWrite _ s3 _ _ hw
          obtain ⟨old, ho, he⟩ := same_slot _ s3 h3 idx _ hslot
          exact (h3.trans (same_finishWrite s3 idx old _ _ _ _ ho he.symm)).linv h2


/-! ## relocation -/

theorem reserved_pos_one (s : Db) (h : LInv s) : Pos s.reserved ∧ One s.reserved := by
  refine ⟨fun e he => h.pos e ((mem_claimed s e).mpr (Or.inr (Or.inl he))), fun x => ?_⟩
  have := h.one x; unfold claimedDb at this; simp only [cnt_append] at this; omega

theorem alGet_of_mem (l : List E) (e : E) (hp : Pos l) (ho : One l) (he : e ∈ l) : alGet l e.1 = some e.2 := by
  have hs := filter_start_singleton l e hp ho he
  unfold alGet
  cases hf : l.find? (fun a => a.1 == e.1) with
  | none =>
    have := List.find?_eq_none.mp hf e he
    simp at this
  | some a =>
    have hm := List.mem_of_find?_eq_some hf
    have hpa := List.find?_some hf
    have ha : a ∈ l.filter (fun c => c.1 == e.1) := List.mem_filter.mpr ⟨hm, hpa⟩
    rw [hs] at ha
    simp at ha
    simp [ha]

/-- the target of a relocation is taken from the best-fitting hole, or from the end of the allocated area, and is
recorded as a reservation before the layout lock is released -/
theorem linv_placeRelocation (s s' : Db) (h : LInv s) (nr ns : Nat) (hnr : 0 < nr)
    (hp : s.placeRelocation nr = .ok (s', ns)) :
    LInv s' ∧ (ns, nr) ∈ s'.reserved ∧ vs s' = vs s ∧ s'.regions = s.regions := by
  unfold Db.placeRelocation at hp
  obtain ⟨hhp, hho⟩ := holes_pos_one s h
  cases hb : bestFit s.holes nr with
  | some hstart =>
    simp only [hb] at hp
    obtain ⟨size, hg, hsz⟩ := bestFit_alGet s.holes nr hstart hhp hho hb
    cases hrc : removeOrCompress s.holes hstart nr with
    | error e => simp [hrc] at hp
    | ok hs =>
      simp only [hrc, Except.ok.injEq, Prod.mk.injEq] at hp
      obtain ⟨rfl, rfl⟩ := hp
      have hrc' := fun x => removeOrCompress_cnt s.holes hs hstart nr size hhp hho hg hrc x
      refine ⟨⟨?_, ?_, h.reg1, h.reg2⟩, by simp, rfl, rfl⟩
      · intro x
        have := h.one x
        have := (hrc' x).2.1
        unfold claimedDb at *
        simp only [cnt_append, cnt_cons, cnt_nil] at *
        omega
      · intro e he
        rcases (mem_claimed _ e).mp he with h1 | h1 | h1 | h1
        · exact h.pos e ((mem_claimed s e).mpr (Or.inl h1))
        · simp only [List.mem_append, List.mem_singleton] at h1
          rcases h1 with h1 | h1
          · exact h.pos e ((mem_claimed s e).mpr (Or.inr (Or.inl h1)))
          · rw [h1]; exact hnr
        · exact (hrc' 0).2.2 hnr e h1
        · exact h.pos e ((mem_claimed s e).mpr (Or.inr (Or.inr (Or.inr h1))))
  | none =>
    simp only [hb, Except.ok.injEq, Prod.mk.injEq] at hp
    obtain ⟨rfl, rfl⟩ := hp
    have hmid : LInv { s with reserved := s.reserved ++ [(s.layoutLen, nr)] } := by
      refine ⟨?_, ?_, h.reg1, h.reg2⟩
      · intro x
        have h1 := h.one x
        unfold claimedDb at h1 ⊢
        simp only [cnt_append, cnt_cons, cnt_nil] at h1 ⊢
        by_cases hx : s.layoutLen ≤ x
        · have := free_from_len s h x hx
          unfold claimedDb at this
          simp only [cnt_append] at this
          have := ind_le_one (s.layoutLen, nr) x
          omega
        · rw [ind_neg _ _ _ (by omega)]; omega
      · intro e he
        rcases (mem_claimed _ e).mp he with h1 | h1 | h1 | h1
        · exact h.pos e ((mem_claimed s e).mpr (Or.inl h1))
        · simp only [List.mem_append, List.mem_singleton] at h1
          rcases h1 with h1 | h1
          · exact h.pos e ((mem_claimed s e).mpr (Or.inr (Or.inl h1)))
          · rw [h1]; exact hnr
        · exact h.pos e ((mem_claimed s e).mpr (Or.inr (Or.inr (Or.inl h1))))
        · exact h.pos e ((mem_claimed s e).mpr (Or.inr (Or.inr (Or.inr h1))))
    have hsm := same_setMinLen { s with reserved := s.reserved ++ [(s.layoutLen, nr)] } (s.layoutLen + nr)
    refine ⟨hsm.linv hmid, by rw [hsm.2.2.1]; simp, hsm.1, hsm.2.1⟩


/-- the region takes its reservation: slot at the new extent, old extent pending, reservation gone, start map switched -/
theorem linv_moved (s f : Db) (h : LInv s) (idx : Nat) (sl new : Slot) (hs : s.slot? idx = some sl) (ns nr : Nat)
    (hres : (ns, nr) ∈ s.reserved) (f1 : f.slots = s.slots.set idx (some new)) (hnew : extOf new = (ns, nr))
    (f2 : f.regions = alErase s.regions sl.md.start ++ [(ns, idx)]) (f3 : f.reserved = alErase s.reserved ns)
    (f4 : f.pending = sortedInsert s.pending sl.md.start sl.md.reserved) (f5 : f.holes = s.holes) : LInv f := by
  have hsl := (slot_iff s idx sl).mp hs
  have hv : (vs s)[idx]? = some (some (sl.md.start, sl.md.reserved)) := (vs_get s idx _).mpr ⟨sl, hs, rfl⟩
  have hlen : idx < (vs s).length := by have := hv; rw [List.getElem?_eq_some_iff] at this; exact this.1
  have hmem : extOf sl ∈ exts s.slots := (mem_exts s.slots _).mpr ⟨idx, sl, hsl, rfl⟩
  have hvf : vs f = (vs s).set idx (some (ns, nr)) := by unfold vs; rw [f1]; simp [List.map_set, hnew]
  obtain ⟨rp, ro⟩ := reserved_pos_one s h
  have hpend : ∀ e ∈ s.pending, e.1 ≠ sl.md.start := fun e he => cross_start s h (extOf sl) e hmem (Or.inl he)
  have hcl : ∀ x, cnt (claimedDb f) x = cnt (claimedDb s) x := by
    intro x
    unfold claimedDb
    simp only [cnt_append, f1, f3, f4, f5]
    have e1 := cnt_exts_set_some s.slots idx sl new x hsl
    rw [hnew] at e1
    have e2 := cnt_sortedInsert s.pending sl.md.start sl.md.reserved x hpend
    have e3 := cnt_alErase s.reserved (ns, nr) x rp ro hres
    have e1' : cnt (exts (s.slots.set idx (some new))) x + ind (sl.md.start, sl.md.reserved) x = cnt (exts s.slots) x + ind (ns, nr) x := e1
    simp only at e3
    omega
  refine ⟨fun x => by rw [hcl x]; exact h.one x, ?_, ?_, ?_⟩
  · intro e he
    rcases (mem_claimed f e).mp he with h1 | h1 | h1 | h1
    · rcases mem_claimed_set s f idx new f1 e h1 with h2 | h2
      · rw [h2, hnew]; exact rp _ hres
      · exact h.pos e ((mem_claimed s e).mpr (Or.inl h2))
    · rw [f3] at h1; exact rp e (List.mem_filter.mp h1).1
    · rw [f5] at h1; exact h.pos e ((mem_claimed s e).mpr (Or.inr (Or.inr (Or.inl h1))))
    · rw [f4] at h1
      rcases mem_sortedInsert _ _ _ _ h1 with h2 | h2
      · rw [h2]; exact h.pos _ ((mem_claimed s _).mpr (Or.inl hmem))
      · exact h.pos e ((mem_claimed s e).mpr (Or.inr (Or.inr (Or.inr h2))))
  · intro i st r hi
    rw [hvf] at hi
    rw [f2]
    by_cases hii : i = idx
    · subst hii
      rw [List.getElem?_set_self hlen] at hi
      simp only [Option.some.injEq, Prod.mk.injEq] at hi
      rw [← hi.1]; simp
    · rw [List.getElem?_set_ne (Ne.symm hii)] at hi
      have hreg := h.reg1 i st r hi
      refine List.mem_append.mpr (Or.inl (mem_alErase.mpr ⟨hreg, ?_⟩))
      intro hst
      simp only at hst
      subst hst
      exact hii (slot_of_start s h i idx _ r _ hi hv)
  · intro st i hm
    rw [f2] at hm
    rw [hvf]
    rcases List.mem_append.mp hm with hm | hm
    · obtain ⟨hm1, hm2⟩ := mem_alErase.mp hm
      obtain ⟨r, hr⟩ := h.reg2 st i hm1
      have hii : i ≠ idx := by
        intro e2; subst e2
        rw [hv] at hr
        simp only [Option.some.injEq, Prod.mk.injEq] at hr
        exact hm2 hr.1.symm
      exact ⟨r, by rw [List.getElem?_set_ne (Ne.symm hii)]; exact hr⟩
    · simp only [List.mem_singleton, Prod.mk.injEq] at hm
      obtain ⟨rfl, rfl⟩ := hm
      exact ⟨nr, by rw [List.getElem?_set_self hlen]⟩


def IsPanic : Out → Prop
  | .panic _ => True
  | _ => False

theorem extOf_metaSetStart (sl : Slot) (n : Nat) : extOf (metaSetStart sl n) = (n, sl.md.reserved) := by
  unfold metaSetStart extOf; split
  · rename_i h; simp [h]
  · rfl

theorem linv_writeRelocate (s : Db) (h : LInv s) (idx : Nat) (sl cur : Slot) (d : List UInt8) (wo nl nr cl ns : Nat)
    (hs : s.slot? idx = some cur) (hcur : extOf cur = extOf sl) (hres : (ns, nr) ∈ s.reserved) :
    IsPanic (s.writeRelocate idx sl d wo nl nr cl ns).2 ∨ LInv (s.writeRelocate idx sl d wo nl nr cl ns).1 := by
  unfold Db.writeRelocate
  cases hc : s.dataCopy sl.md.start ns cl with
  | error o => right; exact h
  | ok s1 =>
    simp only
    have h1 := same_dataCopy s s1 _ _ _ hc
    cases hw : s1.dataWrite (ns + wo) d with
    | none => left; trivial
    | some s2 =>
      simp only
      have h2 := h1.trans (same_dataWrite s1 s2 _ _ hw)
      have hi2 := h2.linv h
      obtain ⟨c2, hc2, he2⟩ := same_slot s s2 h2 idx cur hs
      have hext : extOf c2 = (sl.md.start, sl.md.reserved) := by rw [he2, hcur]; rfl
      have hst2 : c2.md.start = sl.md.start ∧ c2.md.reserved = sl.md.reserved := by
        simp only [extOf, Prod.mk.injEq] at hext; exact hext
      have hv2 : (vs s2)[idx]? = some (some (sl.md.start, sl.md.reserved)) := (vs_get s2 idx _).mpr ⟨c2, hc2, hext⟩
      have hg := regions_get s2 hi2 idx _ _ hv2
      have hres2 : (ns, nr) ∈ s2.reserved := by rw [h2.2.2.1]; exact hres
      obtain ⟨rp, ro⟩ := reserved_pos_one s2 hi2
      have hga := alGet_of_mem s2.reserved (ns, nr) rp ro hres2
      unfold Db.layoutRemoveRegion
      simp only [hg, if_true, Bool.not_true, Bool.false_eq_true, if_false, hga, bne_self_eq_false]
      split
      · left; trivial
      · right
        have hnewext : extOf (metaSetLen (metaSetReserved (metaSetStart (markDirty sl 0 nl) ns) nr) nl) = (ns, nr) := by
          rw [extOf_metaSetLen, extOf_metaSetReserved]
          have := extOf_metaSetStart (markDirty sl 0 nl) ns
          simp only [extOf, Prod.mk.injEq] at this
          rw [this.1]
        unfold Db.writeIfDirty
        split
        · refine linv_moved s2 _ hi2 idx c2
            { metaSetLen (metaSetReserved (metaSetStart (markDirty sl 0 nl) ns) nr) nl with st := .needsFlush } hc2 ns nr hres2
            rfl (by simpa [extOf] using hnewext) ?_ rfl ?_ rfl
          · simp [hst2.1]
          · simp [hst2.1, hst2.2]
        · refine linv_moved s2 _ hi2 idx c2 (metaSetLen (metaSetReserved (metaSetStart (markDirty sl 0 nl) ns) nr) nl) hc2 ns nr hres2
            rfl hnewext ?_ rfl ?_ rfl
          · simp [Db.setSlot, hst2.1]
          · simp [Db.setSlot, hst2.1, hst2.2]


theorem growReserved_need (fuel cur need n : Nat) (h : growReserved fuel cur need = some n) : need ≤ n := by
  induction fuel generalizing cur with
  | zero => simp [growReserved] at h
  | succ k ih =>
    simp only [growReserved] at h
    split at h
    · split at h
      · cases h
      · exact ih _ h
    · cases h; omega

theorem linv_writeGrow (s : Db) (h : LInv s) (idx : Nat) (sl : Slot) (d : List UInt8) (wo nl cl : Nat)
    (hs : s.slot? idx = some sl) (hnl : sl.md.reserved < nl) :
    IsPanic (s.writeGrow idx sl d wo nl cl).2 ∨ LInv (s.writeGrow idx sl d wo nl cl).1 := by
  unfold Db.writeGrow
  simp only []
  split
  · right; exact h
  · cases hg : growReserved 64 sl.md.reserved nl with
    | none => right; exact h
    | some nr =>
      simp only
      have hge := growReserved_ge 64 _ _ _ hg
      have hneed := growReserved_need 64 _ _ _ hg
      split
      · rename_i hl
        right; exact linv_writeExtendLast s h idx sl d wo nl nr hs hl hge
      · split
        · rename_i hc
          right; exact linv_writeExpand s h idx sl d wo nl nr hs (by omega) hc
        · cases hp : s.placeRelocation nr with
          | error e => right; exact h
          | ok r =>
            obtain ⟨s', ns⟩ := r
            simp only
            obtain ⟨p1, p2, p3, p4⟩ := linv_placeRelocation s s' h nr ns (by omega) hp
            have hv : (vs s')[idx]? = some (some (extOf sl)) := by rw [p3]; exact (vs_get s idx _).mpr ⟨sl, hs, rfl⟩
            obtain ⟨cur, hc1, hc2⟩ := (vs_get s' idx _).mp hv
            exact linv_writeRelocate s' p1 idx sl cur d wo nl nr cl ns hc1 hc2 p2

theorem linv_writeWith (s : Db) (h : LInv s) (idx : Nat) (d : List UInt8) (at_ : Option Nat) (tr : Bool) :
    IsPanic (s.writeWith idx d at_ tr).2 ∨ LInv (s.writeWith idx d at_ tr).1 := by
  unfold Db.writeWith
  cases hs : s.slot? idx with
  | none => right; exact h
  | some sl =>
    simp only
    split
    · right; exact h
    · split
      · right; exact (same_writeFits s idx sl d _ _ hs).linv h
      · rename_i hn
        exact linv_writeGrow s h idx sl d _ _ _ hs (by omega)

end AnyDB.C02r
