import AnyDB.Props.C01Run
import AnyDB.Props.C02Run
namespace AnyDB.C01r
open AnyDB Conc Db C02r Mem

/-! # the metadata file agrees with the slots (towards `reopen`) -/

/-- `regions` file vs slot table: a freed slot has no image; a live slot lies inside the file, has a storable name, and —
unless its metadata was never written (`needsWrite`: created and never given data or a new name) — its image is its metadata;
a never-written slot is empty and has no dirty bounds (so `flush` never marks it clean) -/
structure FInv (s : Db) : Prop where
  dead : ∀ idx, s.slot? idx = none → s.rfile[idx]?.join = none
  live : ∀ idx sl, s.slot? idx = some sl → idx < s.rfile.length ∧ sl.md.id.length ≤ Gen.MAX_REGION_ID_LEN ∧
    (sl.st = .needsWrite → sl.md.len = 0 ∧ sl.dmax = 0) ∧ (sl.st ≠ .needsWrite → s.rfile[idx]?.join = some sl.md)

theorem finv_init : FInv Db.init :=
  ⟨fun idx _ => by simp [Db.init], fun idx sl h => by simp [Db.slot?, Db.init] at h⟩

/-- states that differ only in memory, log, layout or file length -/
theorem finv_congr (s f : Db) (h : FInv s) (h1 : f.slots = s.slots) (h2 : f.rfile = s.rfile) : FInv f := by
  have hs : ∀ idx, f.slot? idx = s.slot? idx := fun idx => by unfold Db.slot?; rw [h1]
  exact ⟨fun idx hd => by rw [h2]; exact h.dead idx (by rw [← hs]; exact hd),
    fun idx sl hl => by rw [h2]; exact h.live idx sl (by rw [← hs]; exact hl)⟩

/-- slot `idx` (live before) is replaced by a written slot whose image is in the file -/
theorem finv_replace (s f : Db) (h : FInv s) (idx : Nat) (old X : Slot) (hs : s.slot? idx = some old)
    (f1 : f.slots = s.slots.set idx (some X)) (hst : X.st ≠ .needsWrite) (hid : X.md.id.length ≤ Gen.MAX_REGION_ID_LEN)
    (f2 : f.rfile.length = s.rfile.length) (f3 : ∀ j, j ≠ idx → f.rfile[j]? = s.rfile[j]?)
    (f4 : f.rfile[idx]?.join = some X.md) : FInv f := by
  have hidx := slot_lt s idx old hs
  have hnew : f.slot? idx = some X := slot_set_eq s f idx X f1 hidx
  refine ⟨fun j hd => ?_, fun j sl hl => ?_⟩
  · have hj : j ≠ idx := by intro e; subst e; rw [hnew] at hd; cases hd
    rw [f3 j hj]; exact h.dead j (by rw [← slot_set_ne s f idx j _ f1 hj]; exact hd)
  · by_cases hj : j = idx
    · subst hj
      rw [hnew] at hl; cases hl
      exact ⟨by rw [f2]; exact (h.live j old hs).1, hid, fun e => absurd e hst, fun _ => f4⟩
    · rw [slot_set_ne s f idx j _ f1 hj] at hl
      obtain ⟨a, b, c, d⟩ := h.live j sl hl
      exact ⟨by rw [f2]; exact a, b, c, fun e => by rw [f3 j hj]; exact d e⟩

/-! ## what the metadata setters do to the state flag -/

/-- either the slot now needs writing, or nothing about its metadata and flag changed -/
def SKept (a b : Slot) : Prop := b.st = .needsWrite ∨ (b.md = a.md ∧ b.st = a.st)

theorem SKept.refl (a : Slot) : SKept a a := Or.inr ⟨rfl, rfl⟩
theorem SKept.trans {a b c : Slot} (h1 : SKept a b) (h2 : SKept b c) : SKept a c := by
  rcases h2 with h | ⟨h, h'⟩
  · exact Or.inl h
  · rcases h1 with g | ⟨g, g'⟩
    · exact Or.inl (by rw [h', g])
    · exact Or.inr ⟨by rw [h, g], by rw [h', g']⟩

theorem skept_metaSetLen (sl : Slot) (n : Nat) : SKept sl (metaSetLen sl n) := by unfold metaSetLen; split; exact SKept.refl _; exact Or.inl rfl
theorem skept_metaSetStart (sl : Slot) (n : Nat) : SKept sl (metaSetStart sl n) := by unfold metaSetStart; split; exact SKept.refl _; exact Or.inl rfl
theorem skept_metaSetReserved (sl : Slot) (n : Nat) : SKept sl (metaSetReserved sl n) := by unfold metaSetReserved; split; exact SKept.refl _; exact Or.inl rfl
theorem skept_metaSetId (sl : Slot) (n : RegionId) : SKept sl (metaSetId sl n) := by unfold metaSetId; split; exact SKept.refl _; exact Or.inl rfl
theorem skept_markDirty (sl : Slot) (a b : Nat) : SKept sl (markDirty sl a b) := Or.inr ⟨rfl, rfl⟩

/-- `write_if_dirty` of a slot derived from the live slot `old` by metadata setters: the invariant holds afterwards -/
theorem finv_writeIfDirty (s t : Db) (h : FInv s) (idx : Nat) (old sl : Slot) (hs : s.slot? idx = some old)
    (ht1 : t.slots.length = s.slots.length) (ht2 : ∀ j, j ≠ idx → t.slot? j = s.slot? j) (ht3 : t.rfile = s.rfile)
    (hk : SKept old sl) (hid : sl.md.id.length ≤ Gen.MAX_REGION_ID_LEN) : FInv (t.writeIfDirty idx sl) := by
  have hidx := slot_lt s idx old hs
  obtain ⟨a, b, c, d⟩ := h.live idx old hs
  -- the state t may hold anything in slot idx: describe the result directly
  have key : ∀ (f : Db) (X : Slot), f.slots = t.slots.set idx (some X) → X.st ≠ .needsWrite → X.md = sl.md →
      f.rfile.length = s.rfile.length → (∀ j, j ≠ idx → f.rfile[j]? = s.rfile[j]?) → f.rfile[idx]?.join = some X.md → FInv f := by
    intro f X f1 hst hmd f2 f3 f4
    have hnew : f.slot? idx = some X := by
      unfold Db.slot?; rw [f1, List.getElem?_set_self (by rw [ht1]; exact hidx)]; rfl
    have hne : ∀ j, j ≠ idx → f.slot? j = s.slot? j := by
      intro j hj; rw [← ht2 j hj]; unfold Db.slot?; rw [f1, List.getElem?_set_ne (Ne.symm hj)]
    refine ⟨fun j hd => ?_, fun j x hl => ?_⟩
    · have hj : j ≠ idx := by intro e; subst e; rw [hnew] at hd; cases hd
      rw [f3 j hj]; exact h.dead j (by rw [← hne j hj]; exact hd)
    · by_cases hj : j = idx
      · subst hj
        rw [hnew] at hl; cases hl
        exact ⟨by rw [f2]; exact a, by rw [hmd]; exact hid, fun e => absurd e hst, fun _ => f4⟩
      · rw [hne j hj] at hl
        obtain ⟨a', b', c', d'⟩ := h.live j x hl
        exact ⟨by rw [f2]; exact a', b', c', fun e => by rw [f3 j hj]; exact d' e⟩
  unfold Db.writeIfDirty
  split
  · rename_i hnw
    refine key _ { sl with st := .needsFlush } rfl (by simp) rfl (by simp [ht3]) (fun j hj => by simp only [ht3]; rw [List.getElem?_set_ne (Ne.symm hj)]) ?_
    simp only [ht3]
    rw [List.getElem?_set_self a]; rfl
  · rename_i hnw
    rcases hk with hk | ⟨hk1, hk2⟩
    · exact absurd hk hnw
    · refine key _ sl rfl hnw rfl (by simp [Db.setSlot, ht3]) (fun j _ => by simp [Db.setSlot, ht3]) ?_
      simp only [Db.setSlot, ht3]
      rw [hk1]; exact d (by rw [← hk2]; exact hnw)


/-- slot `idx` keeps its metadata and state flag (dirty bounds may change), the file is untouched -/
theorem finv_setSlot_same (s t f : Db) (h : FInv s) (idx : Nat) (old X : Slot) (hs : s.slot? idx = some old)
    (ht1 : t.slots.length = s.slots.length) (ht2 : ∀ j, j ≠ idx → t.slot? j = s.slot? j) (ht3 : t.rfile = s.rfile)
    (f1 : f.slots = t.slots.set idx (some X)) (f2 : f.rfile = t.rfile) (hmd : X.md = old.md) (hst : X.st = old.st)
    (hnw : X.st = .needsWrite → X.dmax = 0) : FInv f := by
  have hidx := slot_lt s idx old hs
  obtain ⟨a, b, c, d⟩ := h.live idx old hs
  have hnew : f.slot? idx = some X := by
    unfold Db.slot?; rw [f1, List.getElem?_set_self (by rw [ht1]; exact hidx)]; rfl
  have hne : ∀ j, j ≠ idx → f.slot? j = s.slot? j := by
    intro j hj; rw [← ht2 j hj]; unfold Db.slot?; rw [f1, List.getElem?_set_ne (Ne.symm hj)]
  refine ⟨fun j hd => ?_, fun j x hl => ?_⟩
  · have hj : j ≠ idx := by intro e; subst e; rw [hnew] at hd; cases hd
    rw [f2, ht3]; exact h.dead j (by rw [← hne j hj]; exact hd)
  · by_cases hj : j = idx
    · subst hj
      rw [hnew] at hl; cases hl
      rw [f2, ht3]
      exact ⟨a, by rw [hmd]; exact b, fun e => ⟨by rw [hmd]; exact (c (by rw [← hst]; exact e)).1, hnw e⟩,
        fun e => by rw [hmd]; exact d (by rw [← hst]; exact e)⟩
    · rw [hne j hj] at hl
      rw [f2, ht3]
      exact h.live j x hl

/-- the other slots and the metadata file are as in `s` -/
def Oth (s t : Db) (idx : Nat) : Prop := t.slots.length = s.slots.length ∧ (∀ j, j ≠ idx → t.slot? j = s.slot? j) ∧ t.rfile = s.rfile

theorem Oth.refl (s : Db) (idx : Nat) : Oth s s idx := ⟨rfl, fun _ _ => rfl, rfl⟩
theorem Oth.trans {a b c : Db} {idx : Nat} (h1 : Oth a b idx) (h2 : Oth b c idx) : Oth a c idx :=
  ⟨h2.1.trans h1.1, fun j hj => (h2.2.1 j hj).trans (h1.2.1 j hj), h2.2.2.trans h1.2.2⟩
theorem oth_of_eq (s t : Db) (idx : Nat) (h1 : t.slots = s.slots) (h2 : t.rfile = s.rfile) : Oth s t idx :=
  ⟨by rw [h1], fun j _ => by unfold Db.slot?; rw [h1], h2⟩
theorem oth_setSlot (s : Db) (idx : Nat) (o : Option Slot) : Oth s (s.setSlot idx o) idx :=
  ⟨by simp [Db.setSlot], fun j hj => by unfold Db.slot? Db.setSlot; simp only; rw [List.getElem?_set_ne (Ne.symm hj)], rfl⟩
theorem oth_dataWrite (s s' : Db) (idx off : Nat) (d : List UInt8) (h : s.dataWrite off d = some s') : Oth s s' idx := by
  unfold Db.dataWrite at h
  cases hw : s.mem.writeAt off d with
  | none => simp [hw] at h
  | some m => simp [hw] at h; subst h; exact oth_of_eq _ _ _ rfl rfl
theorem oth_setMinLen (s : Db) (idx n : Nat) : Oth s (s.setMinLen n) idx := by
  unfold Db.setMinLen; simp only []; split <;> exact oth_of_eq _ _ _ rfl rfl
theorem oth_dataCopy (s s' : Db) (idx a b n : Nat) (h : s.dataCopy a b n = .ok s') : Oth s s' idx := by
  unfold Db.dataCopy at h
  split at h
  · cases h; exact Oth.refl _ _
  · split at h
    · cases h
    · split at h
      · cases h
      · cases hw : s.dataWrite b (s.mem.slice a n) with
        | none => simp [hw] at h
        | some s2 => simp [hw] at h; subst h; exact oth_dataWrite s s2 idx _ _ hw


/-! ## the operations -/

theorem finv_truncate (s : Db) (h : FInv s) (idx n : Nat) : FInv (s.truncate idx n).1 := by
  unfold Db.truncate
  cases hs : s.slot? idx with
  | none => exact h
  | some sl =>
    simp only
    split
    · exact h
    · split
      · exact h
      · exact finv_writeIfDirty s s h idx sl _ hs rfl (fun _ _ => rfl) rfl (skept_metaSetLen sl n)
          (by rw [md_metaSetLen]; exact (h.live idx sl hs).2.1)

theorem idValid_len (id : RegionId) (h : idValid id = true) : id.length ≤ Gen.MAX_REGION_ID_LEN := by
  unfold idValid at h
  simp only [Bool.and_eq_true, decide_eq_true_eq] at h
  exact h.1.2

theorem finv_rename (s : Db) (h : FInv s) (idx : Nat) (nid : RegionId) : FInv (s.rename idx nid).1 := by
  unfold Db.rename
  cases hs : s.slot? idx with
  | none => exact h
  | some sl =>
    simp only
    split
    · exact h
    · split
      · exact h
      · rename_i _ hv
        have hv' : idValid nid = true := by simpa using hv
        exact finv_writeIfDirty s s h idx sl _ hs rfl (fun _ _ => rfl) rfl (skept_metaSetId sl nid)
          (by rw [md_metaSetId]; exact idValid_len nid hv')

theorem finv_remove (s : Db) (h : FInv s) (idx : Nat) (extra : Bool) : FInv (s.remove idx extra).1 := by
  unfold Db.remove
  cases hs : s.slot? idx with
  | none => exact h
  | some sl =>
    simp only
    split
    · exact h
    · unfold Db.layoutRemoveRegion
      simp only []
      have hidx := slot_lt s idx sl hs
      have key : ∀ (t : Db), t.slots = s.slots → t.rfile = s.rfile →
          FInv { (t.setSlot idx none) with rfile := (t.setSlot idx none).rfile.set idx none, log := (t.setSlot idx none).log ++ [.metaWrite idx none] } := by
        intro t t1 t2
        refine ⟨fun j hd => ?_, fun j x hl => ?_⟩
        · by_cases hj : j = idx
          · subst hj
            simp only [Db.setSlot, t2]
            by_cases hl : j < s.rfile.length
            · rw [List.getElem?_set_self hl]; rfl
            · rw [List.getElem?_eq_none (by simp; omega)]; rfl
          · simp only [Db.setSlot, t2]
            rw [List.getElem?_set_ne (Ne.symm hj)]
            apply h.dead j
            have : ({ (t.setSlot idx none) with rfile := (t.setSlot idx none).rfile.set idx none, log := (t.setSlot idx none).log ++ [.metaWrite idx none] } : Db).slot? j = s.slot? j := by
              unfold Db.slot? Db.setSlot; simp only [t1]; rw [List.getElem?_set_ne (Ne.symm hj)]
            rw [← this]; exact hd
        · have hj : j ≠ idx := by
            intro e; subst e
            unfold Db.slot? Db.setSlot at hl
            simp only [t1] at hl
            rw [List.getElem?_set_self hidx] at hl; cases hl
          have hsl : s.slot? j = some x := by
            unfold Db.slot? Db.setSlot at hl
            simp only [t1] at hl
            rw [List.getElem?_set_ne (Ne.symm hj)] at hl; exact hl
          obtain ⟨a, b, c, d⟩ := h.live j x hsl
          simp only [Db.setSlot, t2, List.length_set]
          exact ⟨a, b, c, fun e => by rw [List.getElem?_set_ne (Ne.symm hj)]; exact d e⟩
      split
      · split
        · simp only [Bool.not_true, Bool.false_eq_true, if_false]
          exact key _ rfl rfl
        · simp only [Bool.not_false, if_true]
          exact finv_congr s _ h rfl rfl
      · simp only [Bool.not_false, if_true]
        exact finv_congr s _ h rfl rfl

theorem finv_removeId (s : Db) (h : FInv s) (id : RegionId) (extra : Bool) : FInv (s.removeId id extra).1 := by
  unfold Db.removeId; split; exact h; exact finv_remove s h _ extra

theorem finv_retain (s : Db) (h : FInv s) (keep : List RegionId) : FInv (s.retain keep).1 := by
  unfold Db.retain
  generalize (List.range s.slots.length).filter _ = victims
  suffices hh : ∀ (acc : Db × Out), FInv acc.1 →
      FInv (victims.foldl (fun (acc : Db × Out) i => match acc.2 with | .ok => acc.1.remove i false | _ => acc) acc).1 from hh (s, .ok) h
  induction victims with
  | nil => intro acc ha; exact ha
  | cons v t ih =>
    intro acc ha
    simp only [List.foldl_cons]
    split
    · exact ih _ (finv_remove acc.1 ha v false)
    · exact ih _ ha

theorem finv_writeFits (s : Db) (h : FInv s) (idx : Nat) (sl : Slot) (d : List UInt8) (wo nl : Nat) (hs : s.slot? idx = some sl)
    (hb : wo + d.length ≤ nl) : FInv (s.writeFits idx sl d wo nl).1 := by
  unfold Db.writeFits
  cases hw : s.dataWrite (sl.md.start + wo) d with
  | none => exact h
  | some s1 =>
    simp only
    have ho := oth_dataWrite s s1 idx _ _ hw
    split
    · exact finv_writeIfDirty s s1 h idx sl _ hs ho.1 ho.2.1 ho.2.2 ((skept_markDirty sl wo d.length).trans (skept_metaSetLen _ nl))
        (by rw [md_metaSetLen, md_markDirty]; exact (h.live idx sl hs).2.1)
    · rename_i hne
      have hnl : nl = sl.md.len := by simpa [Db.markDirty] using hne
      refine finv_setSlot_same s s1 _ h idx sl (markDirty sl wo d.length) hs ho.1 ho.2.1 ho.2.2 rfl rfl rfl rfl ?_
      intro hnw
      have := (h.live idx sl hs).2.2.1 hnw
      simp only [Db.markDirty]
      omega



theorem finv_finishWrite (s t : Db) (h : FInv s) (idx : Nat) (old sl : Slot) (wo dl nl : Nat) (hs : s.slot? idx = some old)
    (ho : Oth s t idx) (hk : SKept old sl) (hid : sl.md.id = old.md.id) : FInv (t.finishWrite idx sl wo dl nl) := by
  unfold Db.finishWrite
  exact finv_writeIfDirty s t h idx old _ hs ho.1 ho.2.1 ho.2.2 ((hk.trans (skept_markDirty sl wo dl)).trans (skept_metaSetLen _ nl))
    (by rw [md_metaSetLen, md_markDirty]; simp only; rw [hid]; exact (h.live idx old hs).2.1)

theorem finv_writeExtendLast (s : Db) (h : FInv s) (idx : Nat) (sl : Slot) (d : List UInt8) (wo nl nr : Nat) (hs : s.slot? idx = some sl) :
    IsPanic (s.writeExtendLast idx sl d wo nl nr).2 ∨ FInv (s.writeExtendLast idx sl d wo nl nr).1 := by
  unfold Db.writeExtendLast
  split
  · left; trivial
  · simp only []
    cases hw : ((s.setSlot idx (some (metaSetReserved sl nr))).setMinLen ((metaSetReserved sl nr).md.start + nr)).dataWrite
        ((metaSetReserved sl nr).md.start + wo) d with
    | none => left; trivial
    | some s3 =>
      right
      simp only
      have ho : Oth s s3 idx := ((oth_setSlot s idx _).trans (oth_setMinLen _ idx _)).trans (oth_dataWrite _ s3 idx _ _ hw)
      exact finv_finishWrite s s3 h idx sl _ wo d.length nl hs ho (skept_metaSetReserved sl nr) (by rw [md_metaSetReserved])

theorem finv_writeExpand (s : Db) (h : FInv s) (idx : Nat) (sl : Slot) (d : List UInt8) (wo nl nr : Nat) (hs : s.slot? idx = some sl) :
    IsPanic (s.writeExpand idx sl d wo nl nr).2 ∨ FInv (s.writeExpand idx sl d wo nl nr).1 := by
  unfold Db.writeExpand
  cases hrc : removeOrCompress s.holes (sl.md.start + sl.md.reserved) (nr - sl.md.reserved) with
  | error e => right; exact h
  | ok hs' =>
    simp only
    split
    · left; trivial
    · cases hw : (({ s with holes := hs' } : Db).setSlot idx (some (metaSetReserved sl nr))).dataWrite
          ((metaSetReserved sl nr).md.start + wo) d with
      | none => left; trivial
      | some s3 =>
        right
        simp only
        have ho : Oth s s3 idx := ((oth_of_eq s { s with holes := hs' } idx rfl rfl).trans (oth_setSlot _ idx _)).trans (oth_dataWrite _ s3 idx _ _ hw)
        exact finv_finishWrite s s3 h idx sl _ wo d.length nl hs ho (skept_metaSetReserved sl nr) (by rw [md_metaSetReserved])

theorem placeRelocation_rfile (s p : Db) (nr ns : Nat) (h : s.placeRelocation nr = .ok (p, ns)) : p.slots = s.slots ∧ p.rfile = s.rfile := by
  unfold Db.placeRelocation at h
  split at h
  · split at h
    · cases h
    · simp only [Except.ok.injEq, Prod.mk.injEq] at h
      obtain ⟨rfl, _⟩ := h
      exact ⟨rfl, rfl⟩
  · simp only [Except.ok.injEq, Prod.mk.injEq] at h
    obtain ⟨rfl, _⟩ := h
    unfold Db.setMinLen; simp only []; split <;> exact ⟨rfl, rfl⟩

theorem finv_writeRelocate (s : Db) (h : FInv s) (idx : Nat) (sl : Slot) (d : List UInt8) (wo nl nr cl ns : Nat) (hs : s.slot? idx = some sl) :
    IsPanic (s.writeRelocate idx sl d wo nl nr cl ns).2 ∨ FInv (s.writeRelocate idx sl d wo nl nr cl ns).1 := by
  unfold Db.writeRelocate
  cases hc : s.dataCopy sl.md.start ns cl with
  | error o => right; exact h
  | ok s1 =>
    simp only
    cases hw : s1.dataWrite (ns + wo) d with
    | none => left; trivial
    | some s2 =>
      simp only
      have ho2 : Oth s s2 idx := (oth_dataCopy s s1 idx _ _ _ hc).trans (oth_dataWrite s1 s2 idx _ _ hw)
      have hlr : Oth s2 (s2.layoutRemoveRegion idx sl.md.start sl.md.reserved).1 idx := by
        unfold Db.layoutRemoveRegion; simp only []; split <;> (try split) <;> exact oth_of_eq _ _ _ rfl rfl
      split
      · right
        exact finv_congr s _ h (by
            have := (ho2.trans hlr)
            -- slots equal as lists: both relations only speak of other slots; use the definitional shape instead
            have e1 : (s2.layoutRemoveRegion idx sl.md.start sl.md.reserved).1.slots = s2.slots := by
              unfold Db.layoutRemoveRegion; simp only []; split <;> (try split) <;> rfl
            have e2 : s2.slots = s.slots := by
              have a := (dataWrite_some s1 s2 _ _ hw).2
              have b := (dataCopy_shape s s1 _ _ _ hc).1
              rw [a, b]
            rw [e1, e2]) (ho2.trans hlr).2.2
      · split
        · left; trivial
        · split
          · left; trivial
          · right
            simp only []
            have ht : Oth s ({ ({ (s2.layoutRemoveRegion idx sl.md.start sl.md.reserved).1 with
                  regions := (s2.layoutRemoveRegion idx sl.md.start sl.md.reserved).1.regions ++ [(ns, idx)] } : Db) with
                reserved := alErase (s2.layoutRemoveRegion idx sl.md.start sl.md.reserved).1.reserved ns } : Db) idx :=
              (ho2.trans hlr).trans (oth_of_eq _ _ _ rfl rfl)
            exact finv_writeIfDirty s _ h idx sl _ hs ht.1 ht.2.1 ht.2.2
              ((((skept_markDirty sl 0 nl).trans (skept_metaSetStart _ ns)).trans (skept_metaSetReserved _ nr)).trans (skept_metaSetLen _ nl))
              (by rw [md_metaSetLen, md_metaSetReserved, md_metaSetStart, md_markDirty]; exact (h.live idx sl hs).2.1)

theorem finv_writeGrow (s : Db) (h : FInv s) (idx : Nat) (sl : Slot) (d : List UInt8) (wo nl cl : Nat) (hs : s.slot? idx = some sl) :
    IsPanic (s.writeGrow idx sl d wo nl cl).2 ∨ FInv (s.writeGrow idx sl d wo nl cl).1 := by
  unfold Db.writeGrow
  simp only []
  split
  · right; exact h
  · cases hg : growReserved 64 sl.md.reserved nl with
    | none => right; exact h
    | some nr =>
      simp only
      split
      · exact finv_writeExtendLast s h idx sl d wo nl nr hs
      · split
        · exact finv_writeExpand s h idx sl d wo nl nr hs
        · cases hp : s.placeRelocation nr with
          | error e => right; exact h
          | ok r =>
            obtain ⟨p, ns⟩ := r
            simp only
            obtain ⟨p1, p2⟩ := placeRelocation_rfile s p nr ns hp
            have hfp := finv_congr s p h p1 p2
            have hsp : p.slot? idx = some sl := by unfold Db.slot?; rw [p1]; exact hs
            exact finv_writeRelocate p hfp idx sl d wo nl nr cl ns hsp

theorem finv_writeWith (s : Db) (h : FInv s) (idx : Nat) (d : List UInt8) (at_ : Option Nat) (tr : Bool) :
    IsPanic (s.writeWith idx d at_ tr).2 ∨ FInv (s.writeWith idx d at_ tr).1 := by
  unfold Db.writeWith
  cases hs : s.slot? idx with
  | none => right; exact h
  | some sl =>
    simp only
    split
    · right; exact h
    · split
      · right; exact finv_writeFits s h idx sl d _ _ hs (newLen_bounds at_ tr sl.md.len d.length).1
      · exact finv_writeGrow s h idx sl d _ _ _ hs



/-- the metadata file only grows by empty images -/
theorem finv_rfile_grow (s f : Db) (h : FInv s) (n : Nat) (f1 : f.slots = s.slots) (f2 : f.rfile = s.rfile ++ List.replicate n none) : FInv f := by
  have hs : ∀ idx, f.slot? idx = s.slot? idx := fun idx => by unfold Db.slot?; rw [f1]
  have hget : ∀ idx : Nat, f.rfile[idx]?.join = s.rfile[idx]?.join := by
    intro idx
    rw [f2]
    by_cases hl : idx < s.rfile.length
    · rw [List.getElem?_append_left hl]
    · rw [List.getElem?_append_right (by omega), List.getElem?_eq_none (l := s.rfile) (by omega)]
      by_cases h2 : idx - s.rfile.length < n
      · rw [List.getElem?_replicate, if_pos h2]; rfl
      · rw [List.getElem?_eq_none (by simp; omega)]
  refine ⟨fun idx hd => by rw [hget]; exact h.dead idx (by rw [← hs]; exact hd), fun idx sl hl => ?_⟩
  obtain ⟨a, b, c, d⟩ := h.live idx sl (by rw [← hs]; exact hl)
  exact ⟨by rw [f2, List.length_append]; omega, b, c, fun e => by rw [hget]; exact d e⟩

theorem finv_regionsSetMinSlots (s : Db) (h : FInv s) (n : Nat) : FInv (s.regionsSetMinSlots n) := by
  unfold Db.regionsSetMinSlots
  split
  · exact finv_rfile_grow s _ h _ rfl rfl
  · exact h

theorem regionsSetMinSlots_len (s : Db) (n : Nat) : n ≤ (s.regionsSetMinSlots n).rfile.length := by
  unfold Db.regionsSetMinSlots
  split
  · simp only [List.length_append, List.length_replicate]; omega
  · omega

theorem finv_setMinLen (s : Db) (h : FInv s) (n : Nat) : FInv (s.setMinLen n) := by
  have := oth_setMinLen s 0 n
  unfold Db.setMinLen; simp only []; split
  · exact h
  · exact finv_congr s _ h rfl rfl

theorem finv_create (s : Db) (h : FInv s) (id : RegionId) : IsPanic (s.create id).2 ∨ FInv (s.create id).1 := by
  unfold Db.create
  cases hf : s.findId id with
  | some i => right; exact h
  | none =>
    simp only
    generalize hs0 : (if (bestFit s.holes Gen.PAGE_SIZE).isNone = true then s.setMinLen (s.layoutLen + Gen.PAGE_SIZE) else s) = s0
    have h0 : FInv s0 := by rw [← hs0]; split; exact finv_setMinLen s h _; exact h
    have key : ∀ (s1 : Db) (start : Nat), FInv s1 →
        IsPanic (if (!idValid id) = true then (s1, Out.panic "validate_id") else
          (let idx := match s1.slots.findIdx? (·.isNone) with | some i => i | none => s1.slots.length
           let s2 := s1.regionsSetMinSlots (idx + 1)
           let sl : Slot := { md := { start := start, len := 0, reserved := Gen.PAGE_SIZE, id := id }, st := .needsWrite, dmin := USIZE_MAX, dmax := 0 }
           let s3 := if idx < s2.slots.length then s2.setSlot idx (some sl) else { s2 with slots := s2.slots ++ [some sl] }
           ({ s3 with regions := s3.regions ++ [(start, idx)] }, Out.okN idx))).2 ∨
        FInv (if (!idValid id) = true then (s1, Out.panic "validate_id") else
          (let idx := match s1.slots.findIdx? (·.isNone) with | some i => i | none => s1.slots.length
           let s2 := s1.regionsSetMinSlots (idx + 1)
           let sl : Slot := { md := { start := start, len := 0, reserved := Gen.PAGE_SIZE, id := id }, st := .needsWrite, dmin := USIZE_MAX, dmax := 0 }
           let s3 := if idx < s2.slots.length then s2.setSlot idx (some sl) else { s2 with slots := s2.slots ++ [some sl] }
           ({ s3 with regions := s3.regions ++ [(start, idx)] }, Out.okN idx))).1 := by
      intro s1 start h1
      split
      · left; trivial
      · rename_i hv
        have hv' : idValid id = true := by simpa using hv
        right
        simp only []
        generalize hidx : (match s1.slots.findIdx? (·.isNone) with | some i => i | none => s1.slots.length) = idx
        have h2 := finv_regionsSetMinSlots s1 h1 (idx + 1)
        have hlen := regionsSetMinSlots_len s1 (idx + 1)
        have hs2slots : (s1.regionsSetMinSlots (idx + 1)).slots = s1.slots := by
          unfold Db.regionsSetMinSlots; split <;> rfl
        generalize s1.regionsSetMinSlots (idx + 1) = s2 at h2 hlen hs2slots
        -- in both branches: slot idx (free or new) becomes the new, never-written slot
        have hfree : s2.slot? idx = none := by
          unfold Db.slot?; rw [hs2slots]
          cases hfi : s1.slots.findIdx? (·.isNone) with
          | none =>
            rw [hfi] at hidx; simp only at hidx
            rw [List.getElem?_eq_none (by omega)]; rfl
          | some i =>
            rw [hfi] at hidx; simp only at hidx; subst hidx
            obtain ⟨hi, hp, _⟩ := List.findIdx?_eq_some_iff_getElem.mp hfi
            rw [List.getElem?_eq_getElem hi]
            cases hx : s1.slots[i] with
            | none => rfl
            | some v => simp [hx] at hp
        have fin : ∀ (f : Db), (∀ j, j ≠ idx → f.slot? j = s2.slot? j) → f.rfile = s2.rfile →
            f.slot? idx = some { md := { start := start, len := 0, reserved := Gen.PAGE_SIZE, id := id }, st := .needsWrite, dmin := USIZE_MAX, dmax := 0 } → FInv f := by
          intro f g1 g2 g3
          refine ⟨fun j hd => ?_, fun j x hl => ?_⟩
          · have hj : j ≠ idx := by intro e; subst e; rw [g3] at hd; cases hd
            rw [g2]; exact h2.dead j (by rw [← g1 j hj]; exact hd)
          · by_cases hj : j = idx
            · subst hj
              rw [g3] at hl; cases hl
              rw [g2]
              exact ⟨by omega, idValid_len id hv', fun _ => ⟨rfl, rfl⟩, fun e => absurd rfl e⟩
            · rw [g1 j hj] at hl
              rw [g2]; exact h2.live j x hl
        split
        · rename_i hlt
          refine fin _ (fun j hj => by unfold Db.slot? Db.setSlot; simp only; rw [List.getElem?_set_ne (Ne.symm hj)]) rfl ?_
          unfold Db.slot? Db.setSlot; simp only
          rw [List.getElem?_set_self hlt]; rfl
        · rename_i hge
          have hil : idx = s2.slots.length := by
            rw [hs2slots] at hge ⊢
            cases hfi : s1.slots.findIdx? (·.isNone) with
            | none => rw [hfi] at hidx; simp only at hidx; exact hidx.symm
            | some i =>
              rw [hfi] at hidx; simp only at hidx; subst hidx
              obtain ⟨hi, _, _⟩ := List.findIdx?_eq_some_iff_getElem.mp hfi
              omega
          refine fin _ (fun j hj => ?_) rfl ?_
          · unfold Db.slot?; simp only
            by_cases hjl : j < s2.slots.length
            · rw [List.getElem?_append_left hjl]
            · rw [List.getElem?_append_right (by omega), List.getElem?_eq_none (by simp; omega), List.getElem?_eq_none (by omega)]
          · unfold Db.slot?; simp only
            rw [hil, List.getElem?_append_right (Nat.le_refl _)]; simp
    cases hb : bestFit s0.holes Gen.PAGE_SIZE with
    | some hstart =>
      simp only
      cases hrc : removeOrCompress s0.holes hstart Gen.PAGE_SIZE with
      | error e => right; exact h0
      | ok hs =>
        simp only
        exact key { s0 with holes := hs } hstart (finv_congr s0 _ h0 rfl rfl)
    | none =>
      simp only
      exact key s0 s0.layoutLen h0



theorem finv_map (s f : Db) (h : FInv s) (g : Slot → Slot)
    (hg : ∀ sl, (g sl).md = sl.md ∧ (g sl).st = sl.st ∧ (sl.dmax = 0 → (g sl).dmax = 0))
    (f1 : f.slots = s.slots.map (Option.map g)) (f2 : f.rfile = s.rfile) : FInv f := by
  have hs : ∀ idx, f.slot? idx = (s.slot? idx).map g := by
    intro idx; unfold Db.slot?; rw [f1, List.getElem?_map]
    cases s.slots[idx]? with
    | none => rfl
    | some o => cases o <;> rfl
  refine ⟨fun idx hd => ?_, fun idx x hl => ?_⟩
  · rw [f2]; apply h.dead idx
    rw [hs] at hd
    cases hx : s.slot? idx with
    | none => rfl
    | some v => rw [hx] at hd; cases hd
  · rw [hs] at hl
    cases hx : s.slot? idx with
    | none => rw [hx] at hl; cases hl
    | some sl =>
      rw [hx] at hl
      simp only [Option.map_some, Option.some.injEq] at hl
      subst hl
      obtain ⟨a, b, c, d⟩ := h.live idx sl hx
      obtain ⟨g1, g2, g3⟩ := hg sl
      rw [f2, g1, g2]
      exact ⟨a, b, fun e => ⟨(c e).1, g3 (c e).2⟩, d⟩

theorem finv_takeAllDirty (s : Db) (h : FInv s) : FInv s.takeAllDirty :=
  finv_map s _ h (fun sl => if sl.dmin < sl.dmax then { sl with dmin := USIZE_MAX, dmax := 0 } else sl)
    (fun sl => by split <;> exact ⟨rfl, rfl, fun e => by first | rfl | exact e⟩) rfl rfl

/-- the slot at `i`, if live, has been written at least once -/
def Written (t : Db) (i : Nat) : Prop := ∀ sl, t.slot? i = some sl → sl.st ≠ .needsWrite

theorem finv_markCleanStep (t : Db) (h : FInv t) (x : Nat × Slot × Option (Nat × Nat)) (hw : Written t x.1) :
    FInv (t.markCleanStep x) ∧ ∀ i, Written t i → Written (t.markCleanStep x) i := by
  unfold Db.markCleanStep
  cases hs : t.slot? x.1 with
  | none => exact ⟨h, fun _ hi => hi⟩
  | some sl =>
    simp only
    have hnw := hw sl hs
    obtain ⟨a, b, c, d⟩ := h.live x.1 sl hs
    refine ⟨finv_replace t _ h x.1 sl { sl with st := .clean } hs rfl (by simp) b rfl (fun _ _ => rfl) (d hnw), ?_⟩
    intro i hi y hy
    by_cases hix : i = x.1
    · subst hix
      rw [slot_set_eq t _ x.1 _ rfl (slot_lt t x.1 sl hs)] at hy
      cases hy; simp
    · rw [slot_set_ne t _ x.1 i _ rfl hix] at hy
      exact hi y hy

theorem finv_markCleanFold (l : List (Nat × Slot × Option (Nat × Nat))) (t : Db) (h : FInv t) (hw : ∀ x ∈ l, Written t x.1) :
    FInv (l.foldl Db.markCleanStep t) := by
  induction l generalizing t with
  | nil => exact h
  | cons a r ih =>
    simp only [List.foldl_cons]
    obtain ⟨h1, h2⟩ := finv_markCleanStep t h a (hw a (List.mem_cons_self ..))
    exact ih _ h1 (fun x hx => h2 x.1 (hw x (List.mem_cons_of_mem _ hx)))

theorem written_candidates (s : Db) (h : FInv s) : ∀ x ∈ s.flushCandidates, Written s.takeAllDirty x.1 := by
  intro x hx y hy
  unfold Db.flushCandidates at hx
  obtain ⟨i, hi, he⟩ := List.mem_filterMap.mp hx
  cases hs : s.slot? i with
  | none => rw [hs] at he; cases he
  | some sl =>
    rw [hs] at he
    simp only at he
    by_cases hc : ((if sl.dmin < sl.dmax then some (sl.dmin, sl.dmax) else none).isSome || sl.st == MState.needsFlush) = true
    · rw [if_pos hc] at he
      simp only [Option.some.injEq] at he
      subst he
      simp only at hy
      have hy' : s.takeAllDirty.slot? i = (s.slot? i).map (fun sl => if sl.dmin < sl.dmax then { sl with dmin := USIZE_MAX, dmax := 0 } else sl) := by
        unfold Db.slot? Db.takeAllDirty; simp only [List.getElem?_map]
        cases s.slots[i]? with
        | none => rfl
        | some o => cases o <;> rfl
      rw [hy', hs] at hy
      simp only [Option.map_some, Option.some.injEq] at hy
      have hst : y.st = sl.st := by rw [← hy]; split <;> rfl
      rw [hst]
      intro hnw
      have := (h.live i sl hs).2.2.1 hnw
      rw [hnw, this.2] at hc
      simp at hc
    · rw [if_neg hc] at he; cases he

theorem finv_flush (s : Db) (h : FInv s) : FInv s.flush.1 := by
  rw [flush_eq]
  refine finv_congr (flushPre s) _ ?_ rfl rfl
  unfold flushPre
  simp only []
  have h0 := finv_takeAllDirty s h
  split
  · split
    · exact h0
    · exact finv_congr _ _ h0 rfl rfl
  · refine finv_markCleanFold _ _ (finv_congr _ _ h0 (by split <;> rfl) (by split <;> rfl)) ?_
    intro x hx y hy
    have : s.takeAllDirty.slot? x.1 = some y := by
      rw [← hy]; unfold Db.slot?; split <;> rfl
    exact written_candidates s h x hx y this

theorem finv_punchHoles (s : Db) (h : FInv s) : FInv s.punchHoles := by
  have hk := quiet_punchHoles
  -- punching changes memory and the event log only
  have key : ∀ (acc : Db × Nat) (a b : Nat), (punchIfData acc a b).1.slots = acc.1.slots ∧ (punchIfData acc a b).1.rfile = acc.1.rfile := by
    intro acc a b; unfold punchIfData; split <;> exact ⟨rfl, rfl⟩
  have fold : ∀ {β : Type} (l : List β) (f : Db × Nat → β → Db × Nat),
      (∀ acc x, (f acc x).1.slots = acc.1.slots ∧ (f acc x).1.rfile = acc.1.rfile) →
      ∀ acc : Db × Nat, (l.foldl f acc).1.slots = acc.1.slots ∧ (l.foldl f acc).1.rfile = acc.1.rfile := by
    intro β l f hf
    induction l with
    | nil => intro acc; exact ⟨rfl, rfl⟩
    | cons a t ih =>
      intro acc
      simp only [List.foldl_cons]
      obtain ⟨i1, i2⟩ := ih (f acc a)
      obtain ⟨j1, j2⟩ := hf acc a
      exact ⟨i1.trans j1, i2.trans j2⟩
  unfold Db.punchHoles
  simp only []
  have h1 := fold (List.range s.slots.length)
    (fun (acc : Db × Nat) i => match acc.1.slot? i with
      | none => acc
      | some sl => if ceilPage sl.md.len < sl.md.reserved then punchIfData acc (sl.md.start + ceilPage sl.md.len) (sl.md.reserved - ceilPage sl.md.len) else acc)
    (by intro acc x; split
        · exact ⟨rfl, rfl⟩
        · split
          · exact key _ _ _
          · exact ⟨rfl, rfl⟩) (s, 0)
  have h2 := fun acc => fold (s.holes.foldl (fun l h => sortedInsert l h.1 h.2) [])
    (fun (acc : Db × Nat) (h : Nat × Nat) => punchIfData acc h.1 h.2) (fun acc x => key _ _ _) acc
  obtain ⟨a1, a2⟩ := h1
  obtain ⟨b1, b2⟩ := h2 ((List.range s.slots.length).foldl (fun (acc : Db × Nat) i => match acc.1.slot? i with
      | none => acc
      | some sl => if ceilPage sl.md.len < sl.md.reserved then punchIfData acc (sl.md.start + ceilPage sl.md.len) (sl.md.reserved - ceilPage sl.md.len) else acc) (s, 0))
  split
  · exact finv_congr s _ h (by simp only [Db.emit]; exact b1.trans a1) (by simp only [Db.emit]; exact b2.trans a2)
  · exact finv_congr s _ h (b1.trans a1) (b2.trans a2)

theorem finv_compact (s : Db) (h : FInv s) : FInv s.compact.1 := by
  unfold Db.compact
  have hf := finv_flush s h
  generalize s.flush = r at hf
  obtain ⟨s1, o⟩ := r
  simp only at hf ⊢
  cases o <;> first | exact hf | exact finv_punchHoles s1 hf

/-- slot `idx` keeps its metadata; its flag stays or (if it was written before) becomes clean; the file is untouched -/
theorem finv_shape (s f : Db) (h : FInv s) (idx : Nat) (old Y : Slot) (hs : s.slot? idx = some old)
    (f1 : f.slots = s.slots.set idx (some Y)) (f2 : f.rfile = s.rfile) (hmd : Y.md = old.md)
    (hst : Y.st = old.st ∨ (old.st ≠ .needsWrite ∧ Y.st ≠ .needsWrite)) (hnw : Y.st = .needsWrite → Y.dmax = 0) : FInv f := by
  obtain ⟨a, b, c, d⟩ := h.live idx old hs
  rcases hst with e | ⟨e1, e2⟩
  · exact finv_setSlot_same s s f h idx old Y hs rfl (fun _ _ => rfl) rfl f1 f2 hmd e hnw
  · exact finv_replace s f h idx old Y hs f1 e2 (by rw [hmd]; exact b) (by rw [f2]) (fun j _ => by rw [f2]) (by rw [f2, hmd]; exact d e1)

theorem finv_regionFlush (s : Db) (h : FInv s) (idx : Nat) : FInv (s.regionFlush idx).1 := by
  unfold Db.regionFlush
  cases hs : s.slot? idx with
  | none => exact h
  | some sl =>
    obtain ⟨a, b, c, d⟩ := h.live idx sl hs
    by_cases hb : sl.dmin < sl.dmax
    · cases hst : sl.st with
      | needsWrite =>
        have := (c hst).2
        omega
      | clean =>
        simp only [hb, if_true, Option.isSome_some, hst]
        exact finv_shape s _ h idx sl { md := sl.md, st := .clean, dmin := USIZE_MAX, dmax := 0 } hs (by simp [Db.emit, Db.setSlot]) rfl rfl (Or.inl (by rw [hst])) (fun e => rfl)
      | needsFlush =>
        simp only [hb, if_true, Option.isSome_some, hst]
        exact finv_shape s _ h idx sl { sl with dmin := USIZE_MAX, dmax := 0, st := .clean } hs (by simp [Db.emit, Db.setSlot]) rfl rfl
          (Or.inr ⟨by rw [hst]; simp, by simp⟩) (fun e => rfl)
    · cases hst : sl.st with
      | needsWrite =>
        simp only [hb, if_false, Option.isSome_none, Bool.false_eq_true, hst]
        exact finv_shape s _ h idx sl sl hs (by simp [Db.setSlot]) rfl rfl (Or.inl rfl) (fun e => (c hst).2)
      | clean =>
        simp only [hb, if_false, Option.isSome_none, Bool.false_eq_true, hst]
        exact finv_shape s _ h idx sl sl hs (by simp [Db.setSlot]) rfl rfl (Or.inl rfl) (fun e => by rw [hst] at e; cases e)
      | needsFlush =>
        simp only [hb, if_false, Option.isSome_none, Bool.false_eq_true, hst]
        exact finv_shape s _ h idx sl { sl with st := .clean } hs (by simp [Db.emit, Db.setSlot]) rfl rfl
          (Or.inr ⟨by rw [hst]; simp, by simp⟩) (fun e => by simp at e)


theorem finv_setMinRegions (s : Db) (h : FInv s) (n : Nat) : FInv (s.setMinRegions n) := by
  unfold Db.setMinRegions
  exact finv_setMinLen _ (finv_regionsSetMinSlots s h n) _

theorem finv_step (s : Db) (op : Op) (h : FInv s) (hop : ∀ n, op ≠ .reopen n) : IsPanic (step s op).2 ∨ FInv (step s op).1 := by
  cases op with
  | create id => exact finv_create s h id
  | write id d => simp only [step, Db.withRegion]; split; right; exact h; exact finv_writeWith s h _ d none false
  | writeAt id a d => simp only [step, Db.withRegion]; split; right; exact h; exact finv_writeWith s h _ d (some a) false
  | truncate id n => simp only [step, Db.withRegion]; split; right; exact h; right; exact finv_truncate s h _ n
  | truncateWrite id a d => simp only [step, Db.withRegion]; split; right; exact h; exact finv_writeWith s h _ d (some a) true
  | rename id n => simp only [step, Db.withRegion]; split; right; exact h; right; exact finv_rename s h _ n
  | remove id => right; exact finv_removeId s h id false
  | removeHeld id => right; exact finv_removeId s h id true
  | retain ids => right; exact finv_retain s h ids
  | flush => right; exact finv_flush s h
  | regionFlush id => simp only [step, Db.withRegion]; split; right; exact h; right; exact finv_regionFlush s h _
  | compact => right; exact finv_compact s h
  | reopen n => exact absurd rfl (hop n)
  | setMinLen n => right; exact finv_setMinLen s h n
  | setMinRegions n => right; exact finv_setMinRegions s h n

theorem finv_run (s : Db) (ops : List Op) (h : FInv s) (hr : NoReopen ops) (hp : NoPanic s ops) : FInv (run s ops) := by
  induction ops generalizing s with
  | nil => exact h
  | cons op t ih =>
    have hno := hr op (List.mem_cons_self ..)
    have : run s (op :: t) = run (step s op).1 t := rfl
    rw [this]
    rcases finv_step s op h hno with hpn | hf
    · exact absurd hpn hp.1
    · exact ih _ hf (fun o ho => hr o (List.mem_cons_of_mem _ ho)) hp.2

theorem noPanic_of_fine (s : Db) (ops : List Op) (hf : FineRun s ops) : NoPanic s ops := by
  induction ops generalizing s with
  | nil => trivial
  | cons op t ih => exact ⟨hf.1.1, ih _ hf.2⟩

/-! ## reopen -/

/-- what `Database::open` reads back from a metadata file that agrees with the slots: every region that has been written at
least once (holds data or was renamed) shows exactly what it showed — same name, same length, same bytes — and a freed slot
shows nothing -/
theorem reopen_view (s : Db) (n : Nat) (hf : FInv s) (hr : RInv s) (ha : Al s)
    (hw : ∀ idx sl, s.slot? idx = some sl → sl.st ≠ .needsWrite) (hok : (s.reopen n).2 = .ok) :
    ∀ idx, viewAt (s.reopen n).1 idx = viewAt s idx := by
  intro idx
  unfold Db.reopen at hok ⊢
  simp only [] at hok ⊢
  -- the (possibly grown) state the files are opened from
  generalize hs0 : (if s.fileLen < n then { s with fileLen := n, mem := s.mem.grow n, log := s.log ++ [.setLen .data n, .sync .data] } else s) = s0 at hok ⊢
  have h0 : s0.slots = s.slots ∧ s0.rfile = s.rfile ∧ s.mem.size ≤ s0.mem.size ∧ ∀ x, x < s.mem.size → s0.mem.get? x = s.mem.get? x := by
    rw [← hs0]; split
    · exact ⟨rfl, rfl, by simp only [size_grow]; omega, fun x hx => by simp only [get?_grow, if_pos hx]⟩
    · exact ⟨rfl, rfl, Nat.le_refl _, fun _ _ => rfl⟩
  split at hok
  · cases hok
  · rename_i holes _
    simp only
    unfold viewAt
    -- the slot read back at idx
    have hslot : ((s0.rfile.map (fun o => match o with
        | some m => if metaValid m then some ({ md := m, st := .clean, dmin := USIZE_MAX, dmax := 0 } : Slot) else none
        | none => none))[idx]?).join = (s.slot? idx).map (fun sl => ({ md := sl.md, st := .clean, dmin := USIZE_MAX, dmax := 0 } : Slot)) := by
      rw [List.getElem?_map, h0.2.1]
      cases hsl : s.slot? idx with
      | none =>
        have := hf.dead idx hsl
        cases hr' : s.rfile[idx]? with
        | none => rfl
        | some o =>
          rw [hr'] at this
          cases o with
          | none => rfl
          | some m => simp at this
      | some sl =>
        obtain ⟨a, b, c, d⟩ := hf.live idx sl hsl
        have hd := d (hw idx sl hsl)
        have hbnd := hr.bnd idx sl hsl
        have hal := alE_slot s ha idx sl hsl
        have hpos : 0 < sl.md.reserved := by
          have hm1 : extOf sl ∈ exts s.slots := (mem_exts s.slots _).mpr ⟨idx, sl, (slot_iff s idx sl).mp hsl, rfl⟩
          exact hr.lay.pos _ ((mem_claimed s _).mpr (Or.inl hm1))
        have hvalid : metaValid sl.md = true := by
          unfold metaValid
          unfold AlE at hal
          simp only [Bool.and_eq_true, decide_eq_true_eq, beq_iff_eq]
          refine ⟨⟨⟨⟨b, hal.1⟩, ?_⟩, hal.2⟩, hbnd.1⟩
          have := hal.2
          simp only [Gen.PAGE_SIZE] at *
          omega
        cases hr' : s.rfile[idx]? with
        | none => rw [hr'] at hd; simp at hd
        | some o =>
          rw [hr'] at hd
          simp only [Option.join_some] at hd
          subst hd
          simp [hvalid]
    have hnew : ({ s0 with slots := s0.rfile.map (fun o => match o with
        | some m => if metaValid m then some ({ md := m, st := .clean, dmin := USIZE_MAX, dmax := 0 } : Slot) else none
        | none => none) } : Db).slot? idx = (s.slot? idx).map (fun sl => ({ md := sl.md, st := .clean, dmin := USIZE_MAX, dmax := 0 } : Slot)) := hslot
    show Option.map _ (Db.slot? _ idx) = _
    have hs' : ∀ (f : Db), f.slots = s0.rfile.map (fun o => match o with
        | some m => if metaValid m then some ({ md := m, st := .clean, dmin := USIZE_MAX, dmax := 0 } : Slot) else none
        | none => none) → f.slot? idx = (s.slot? idx).map (fun sl => ({ md := sl.md, st := .clean, dmin := USIZE_MAX, dmax := 0 } : Slot)) := by
      intro f hfs; unfold Db.slot?; rw [hfs]; exact hslot
    rw [hs' _ rfl]
    cases hsl : s.slot? idx with
    | none => rfl
    | some sl =>
      simp only [Option.map_some, Option.some.injEq, Prod.mk.injEq, true_and]
      have hbnd := hr.bnd idx sl hsl
      exact read_congr _ _ _ _ (fun i hi => h0.2.2.2 _ (by have := hbnd.2 (by omega); omega))


end AnyDB.C01r
