import AnyDB.Lemmas.LayoutCreate
namespace AnyDB.C02r
open AnyDB Conc Db

/-! # accounting: no unclaimed byte below a claimed one

`Acc s`: the claimed bytes form an initial segment — with `LInv` (no byte claimed twice) every byte below the end of the
allocated area belongs to exactly one extent (region, reservation, free extent or pending free extent).  Every
operation either leaves the number of extents covering each byte alone, or adds one extent on top of everything. -/

def Acc (s : Db) : Prop := ∀ x y, x ≤ y → 0 < cnt (claimedDb s) y → 0 < cnt (claimedDb s) x

theorem acc_of_eq (s f : Db) (h : Acc s) (he : ∀ x, cnt (claimedDb f) x = cnt (claimedDb s) x) : Acc f := by
  intro x y hxy hy
  rw [he] at hy ⊢
  exact h x y hxy hy

theorem same_claimed (s s' : Db) (h : Same s s') : claimedDb s' = claimedDb s := by
  unfold claimedDb; rw [exts_vs, exts_vs, h.1, h.2.2.1, h.2.2.2.1, h.2.2.2.2]

theorem Same.acc {s s' : Db} (h : Same s s') (ha : Acc s) : Acc s' :=
  acc_of_eq s s' ha (fun x => by rw [same_claimed s s' h])

/-- a new extent `[L, L+n)` where everything at or above `L` was free and `L-1` (if any) was claimed -/
theorem acc_of_top (s f : Db) (h : Acc s) (L n : Nat)
    (he : ∀ x, cnt (claimedDb f) x = cnt (claimedDb s) x + ind (L, n) x)
    (hfree : ∀ x, L ≤ x → cnt (claimedDb s) x = 0)
    (hend : L = 0 ∨ 0 < cnt (claimedDb s) (L - 1)) : Acc f := by
  intro x y hxy hy
  rw [he] at hy ⊢
  by_cases hx : x < L
  · have : 0 < cnt (claimedDb s) x := by
      rcases hend with h0 | h1
      · omega
      · exact h x (L - 1) (by omega) h1
    omega
  · have hy0 := hfree y (by omega)
    rw [hy0] at hy
    have hiy : ind (L, n) y = 1 := by
      have := ind_le_one (L, n) y; omega
    have : L ≤ y ∧ y < L + n := by
      unfold ind at hiy; split at hiy
      · assumption
      · omega
    rw [ind_pos L n x (by omega)]; omega

theorem acc_init : Acc Db.init := by
  intro x y _ hy
  simp [claimedDb, exts, Db.init, cnt] at hy

/-! ## the primitives -/

theorem cntEq_removed (s f : Db) (h : LInv s) (idx : Nat) (sl : Slot) (hs : s.slot? idx = some sl)
    (f1 : f.slots = s.slots.set idx none)
    (f3 : f.pending = sortedInsert s.pending sl.md.start sl.md.reserved) (f4 : f.reserved = s.reserved) (f5 : f.holes = s.holes) :
    ∀ x, cnt (claimedDb f) x = cnt (claimedDb s) x := by
  have hsl := (slot_iff s idx sl).mp hs
  have hmem : extOf sl ∈ exts s.slots := (mem_exts s.slots _).mpr ⟨idx, sl, hsl, rfl⟩
  have hpend : ∀ e ∈ s.pending, e.1 ≠ sl.md.start := fun e he => cross_start s h (extOf sl) e hmem (Or.inl he)
  intro x
  unfold claimedDb
  simp only [cnt_append, f1, f3, f4, f5]
  have := cnt_exts_set_none s.slots idx sl x hsl
  have := cnt_sortedInsert s.pending sl.md.start sl.md.reserved x hpend
  simp only [extOf] at *
  omega

theorem cntEq_moved (s f : Db) (h : LInv s) (idx : Nat) (sl new : Slot) (hs : s.slot? idx = some sl) (ns nr : Nat)
    (hres : (ns, nr) ∈ s.reserved) (f1 : f.slots = s.slots.set idx (some new)) (hnew : extOf new = (ns, nr))
    (f3 : f.reserved = alErase s.reserved ns)
    (f4 : f.pending = sortedInsert s.pending sl.md.start sl.md.reserved) (f5 : f.holes = s.holes) :
    ∀ x, cnt (claimedDb f) x = cnt (claimedDb s) x := by
  have hsl := (slot_iff s idx sl).mp hs
  have hmem : extOf sl ∈ exts s.slots := (mem_exts s.slots _).mpr ⟨idx, sl, hsl, rfl⟩
  obtain ⟨rp, ro⟩ := reserved_pos_one s h
  have hpend : ∀ e ∈ s.pending, e.1 ≠ sl.md.start := fun e he => cross_start s h (extOf sl) e hmem (Or.inl he)
  intro x
  unfold claimedDb
  simp only [cnt_append, f1, f3, f4, f5]
  have e1 := cnt_exts_set_some s.slots idx sl new x hsl
  rw [hnew] at e1
  have e2 := cnt_sortedInsert s.pending sl.md.start sl.md.reserved x hpend
  have e3 := cnt_alErase s.reserved (ns, nr) x rp ro hres
  have e1' : cnt (exts (s.slots.set idx (some new))) x + ind (sl.md.start, sl.md.reserved) x = cnt (exts s.slots) x + ind (ns, nr) x := e1
  simp only at e3
  omega

/-- the slot's reservation grows from `reserved` to `nr`, nothing else changes -/
theorem cnt_regrow (s : Db) (idx : Nat) (sl : Slot) (hs : s.slot? idx = some sl) (nr : Nat) (hr : sl.md.reserved ≤ nr) (x : Nat) :
    cnt (claimedDb (s.setSlot idx (some (metaSetReserved sl nr)))) x =
      cnt (claimedDb s) x + ind (sl.md.start + sl.md.reserved, nr - sl.md.reserved) x := by
  have hsl := (slot_iff s idx sl).mp hs
  have e := cnt_exts_set_some s.slots idx sl (metaSetReserved sl nr) x hsl
  rw [extOf_metaSetReserved] at e
  have e' : cnt (exts (s.slots.set idx (some (metaSetReserved sl nr)))) x + ind (sl.md.start, sl.md.reserved) x
      = cnt (exts s.slots) x + ind (sl.md.start, nr) x := e
  have e3 := ind_adjacent sl.md.start sl.md.reserved nr x hr
  unfold claimedDb
  simp only [cnt_append, Db.setSlot]
  omega

/-! ## removal, flush, compact -/

theorem acc_remove (s : Db) (idx : Nat) (extra : Bool) (h : LInv s) (ha : Acc s) : Acc (s.remove idx extra).1 := by
  unfold Db.remove
  cases hs : s.slot? idx with
  | none => exact ha
  | some sl =>
    simp only
    split
    · exact ha
    · have hv : (vs s)[idx]? = some (some (sl.md.start, sl.md.reserved)) := (vs_get s idx _).mpr ⟨sl, hs, rfl⟩
      have hg := regions_get s h idx _ _ hv
      unfold Db.layoutRemoveRegion
      simp only [hg, if_true, Bool.not_true, Bool.false_eq_true, if_false]
      exact acc_of_eq s _ ha (cntEq_removed s _ h idx sl hs (by simp [Db.setSlot]) rfl rfl rfl)

theorem acc_removeId (s : Db) (id : RegionId) (extra : Bool) (h : LInv s) (ha : Acc s) : Acc (s.removeId id extra).1 := by
  unfold Db.removeId
  split
  · exact ha
  · exact acc_remove s _ extra h ha

theorem acc_retain (s : Db) (keep : List RegionId) (h : LInv s) (ha : Acc s) : Acc (s.retain keep).1 := by
  unfold Db.retain
  generalize (List.range s.slots.length).filter _ = victims
  suffices hh : ∀ (acc : Db × Out), LInv acc.1 → Acc acc.1 →
      Acc (victims.foldl (fun (acc : Db × Out) i => match acc.2 with | .ok => acc.1.remove i false | _ => acc) acc).1 from hh (s, .ok) h ha
  induction victims with
  | nil => intro acc _ ha; exact ha
  | cons v t ih =>
    intro acc hl ha
    simp only [List.foldl_cons]
    split
    · exact ih _ (linv_remove acc.1 v false hl) (acc_remove acc.1 v false hl ha)
    · exact ih _ hl ha

theorem acc_promote (s : Db) (h : LInv s) (ha : Acc s) : Acc { s with holes := promote s.holes s.pending, pending := [] } := by
  have ph : Pos s.holes := fun e he => h.pos e ((mem_claimed s e).mpr (Or.inr (Or.inr (Or.inl he))))
  have pp : Pos s.pending := fun e he => h.pos e ((mem_claimed s e).mpr (Or.inr (Or.inr (Or.inr he))))
  have hsum : ∀ x, cnt s.holes x + cnt s.pending x ≤ 1 := by
    intro x; have := h.one x; unfold claimedDb at this; simp only [cnt_append] at this; omega
  obtain ⟨q1, _⟩ := promote_cnt s.holes s.pending ph pp hsum
  refine acc_of_eq s _ ha (fun x => ?_)
  unfold claimedDb
  simp only [cnt_append, cnt]
  rw [q1 x]; omega

theorem acc_flush (s : Db) (h : LInv s) (ha : Acc s) : Acc s.flush.1 := by
  rw [flush_eq]
  exact acc_promote _ ((same_flushPre s).linv h) ((same_flushPre s).acc ha)

theorem acc_compact (s : Db) (h : LInv s) (ha : Acc s) : Acc s.compact.1 := by
  unfold Db.compact
  have hf := acc_flush s h ha
  generalize s.flush = r at hf
  obtain ⟨s1, o⟩ := r
  simp only at hf ⊢
  cases o <;> first | exact hf | exact (same_punchHoles s1).acc hf


/-! ## growth -/

theorem claims_last_byte (c : List E) (hp : Pos c) (e : E) (he : e ∈ c) : 0 < cnt c (e.1 + e.2 - 1) := by
  have := ind_le_cnt c e (e.1 + e.2 - 1) he
  have hpe := hp e he
  obtain ⟨a, b⟩ := e
  simp only at this hpe ⊢
  rw [ind_pos _ _ _ (by omega)] at this
  omega

theorem max4_cases (P : Nat → Prop) (a b c d : Nat) (ha : P a) (hb : P b) (hc : P c) (hd : P d) : P (max (max (max a b) c) d) := by
  have hm : max (max (max a b) c) d = a ∨ max (max (max a b) c) d = b ∨ max (max (max a b) c) d = c ∨ max (max (max a b) c) d = d := by omega
  rcases hm with hm | hm | hm | hm <;> rw [hm] <;> assumption

/-- `Layout::len()` is the end of some extent (or 0): the byte below it is claimed -/
theorem layoutLen_attained (s : Db) (h : LInv s) : s.layoutLen = 0 ∨ 0 < cnt (claimedDb s) (s.layoutLen - 1) := by
  have viaList : ∀ (l : List E), (∀ a ∈ l, a ∈ claimedDb s) →
      (match lastOf l with | some (st, r) => st + r | none => 0) = 0 ∨
      0 < cnt (claimedDb s) ((match lastOf l with | some (st, r) => st + r | none => 0) - 1) := by
    intro l hsub
    cases hl : lastOf l with
    | none => left; rfl
    | some y =>
      right
      obtain ⟨y1, _⟩ := lastOf_spec l y hl
      exact claims_last_byte _ h.pos y (hsub y y1)
  have ha := viaList s.reserved (fun a ha => (mem_claimed s a).mpr (Or.inr (Or.inl ha)))
  have hb := viaList s.holes (fun a ha => (mem_claimed s a).mpr (Or.inr (Or.inr (Or.inl ha))))
  have hc := viaList s.pending (fun a ha => (mem_claimed s a).mpr (Or.inr (Or.inr (Or.inr ha))))
  have hd : (match lastOf s.regions with | some (st, idx) => st + s.reservedOfIdx idx | none => 0) = 0 ∨
      0 < cnt (claimedDb s) ((match lastOf s.regions with | some (st, idx) => st + s.reservedOfIdx idx | none => 0) - 1) := by
    cases hl : lastOf s.regions with
    | none => left; rfl
    | some y =>
      right
      obtain ⟨y1, _⟩ := lastOf_spec s.regions y hl
      obtain ⟨st, li⟩ := y
      obtain ⟨r', hv'⟩ := h.reg2 st li y1
      obtain ⟨sl', hs', hst⟩ := (vs_get s li _).mp hv'
      have hmem' : extOf sl' ∈ claimedDb s :=
        (mem_claimed s _).mpr (Or.inl ((mem_exts s.slots _).mpr ⟨li, sl', (slot_iff s li sl').mp hs', rfl⟩))
      have hst1 : sl'.md.start = st := by simp only [extOf, Prod.mk.injEq] at hst; exact hst.1
      have hres : s.reservedOfIdx li = sl'.md.reserved := by unfold Db.reservedOfIdx; rw [hs']
      have := claims_last_byte _ h.pos (extOf sl') hmem'
      simp only [extOf, hst1] at this
      simp only [hres]
      exact this
  unfold Db.layoutLen
  simp only []
  exact max4_cases (fun n => n = 0 ∨ 0 < cnt (claimedDb s) (n - 1)) _ _ _ _ ha hb hc hd

theorem acc_extendLast (s : Db) (h : LInv s) (ha : Acc s) (idx : Nat) (sl : Slot) (hs : s.slot? idx = some sl)
    (hl : s.isLastAnything idx = true) (nr : Nat) (hr : sl.md.reserved ≤ nr) :
    Acc (s.setSlot idx (some (metaSetReserved sl nr))) := by
  have hsl := (slot_iff s idx sl).mp hs
  have hfree := isLast_free s h idx sl hs hl
  have hme : extOf sl ∈ claimedDb s := (mem_claimed s _).mpr (Or.inl ((mem_exts s.slots _).mpr ⟨idx, sl, hsl, rfl⟩))
  have hp0 := h.pos _ hme
  simp only [extOf] at hp0
  refine acc_of_top s _ ha (sl.md.start + sl.md.reserved) (nr - sl.md.reserved) (cnt_regrow s idx sl hs nr hr) hfree (Or.inr ?_)
  have := claims_last_byte _ h.pos (extOf sl) hme
  simpa [extOf] using this

theorem acc_writeExtendLast (s : Db) (h : LInv s) (ha : Acc s) (idx : Nat) (sl : Slot) (d : List UInt8) (wo nl nr : Nat)
    (hs : s.slot? idx = some sl) (hl : s.isLastAnything idx = true) (hr : sl.md.reserved ≤ nr) :
    Acc (s.writeExtendLast idx sl d wo nl nr).1 := by
  unfold Db.writeExtendLast
  split
  · exact ha
  · simp only []
    have h1 := acc_extendLast s h ha idx sl hs hl nr hr
    have hslot : (s.setSlot idx (some (metaSetReserved sl nr))).slot? idx = some (metaSetReserved sl nr) := by
      rw [slot_iff]; simp only [Db.setSlot]
      have := (slot_iff s idx sl).mp hs
      rw [List.getElem?_set_self (by rw [List.getElem?_eq_some_iff] at this; exact this.1)]
    have h2 := same_setMinLen (s.setSlot idx (some (metaSetReserved sl nr))) ((metaSetReserved sl nr).md.start + nr)
    cases hw : ((s.setSlot idx (some (metaSetReserved sl nr))).setMinLen ((metaSetReserved sl nr).md.start + nr)).dataWrite
        ((metaSetReserved sl nr).md.start + wo) d with
    | none => exact h2.acc h1
    | some s3 =>
      simp only
      have h3 := same_dataWrite _ s3 _ _ hw
      obtain ⟨old, ho, he⟩ := same_slot _ s3 (h2.trans h3) idx _ hslot
      exact ((h2.trans h3).trans (same_finishWrite s3 idx old _ _ _ _ ho he.symm)).acc h1

theorem acc_expand (s : Db) (h : LInv s) (ha : Acc s) (idx : Nat) (sl : Slot) (hs : s.slot? idx = some sl) (nr gap : Nat) (hs' : List E)
    (hr : sl.md.reserved < nr) (hg : alGet s.holes (sl.md.start + sl.md.reserved) = some gap)
    (hrc : removeOrCompress s.holes (sl.md.start + sl.md.reserved) (nr - sl.md.reserved) = .ok hs') :
    Acc (({ s with holes := hs' } : Db).setSlot idx (some (metaSetReserved sl nr))) := by
  obtain ⟨hp, ho⟩ := holes_pos_one s h
  have hrc' := fun x => removeOrCompress_cnt s.holes hs' _ _ gap hp ho hg hrc x
  refine acc_of_eq s _ ha (fun x => ?_)
  have hs2 : ({ s with holes := hs' } : Db).slot? idx = some sl := hs
  rw [cnt_regrow _ idx sl hs2 nr (by omega) x]
  have e2 := (hrc' x).2.1
  unfold claimedDb
  simp only [cnt_append]
  omega

theorem acc_writeExpand (s : Db) (h : LInv s) (ha : Acc s) (idx : Nat) (sl : Slot) (d : List UInt8) (wo nl nr : Nat)
    (hs : s.slot? idx = some sl) (hr : sl.md.reserved < nr) (hc : s.canExpand sl nr = true) :
    IsPanic (s.writeExpand idx sl d wo nl nr).2 ∨ Acc (s.writeExpand idx sl d wo nl nr).1 := by
  unfold Db.canExpand at hc
  cases hg : alGet s.holes (sl.md.start + sl.md.reserved) with
  | none => simp [hg] at hc
  | some gap =>
    unfold Db.writeExpand
    cases hrc : removeOrCompress s.holes (sl.md.start + sl.md.reserved) (nr - sl.md.reserved) with
    | error e => right; exact ha
    | ok hs' =>
      simp only
      have h2 := acc_expand s h ha idx sl hs nr gap hs' hr hg hrc
      split
      · left; trivial
      · have hslot : (({ s with holes := hs' } : Db).setSlot idx (some (metaSetReserved sl nr))).slot? idx = some (metaSetReserved sl nr) := by
          rw [slot_iff]; simp only [Db.setSlot]
          have := (slot_iff s idx sl).mp hs
          rw [List.getElem?_set_self (by rw [List.getElem?_eq_some_iff] at this; exact this.1)]
        cases hw : (({ s with holes := hs' } : Db).setSlot idx (some (metaSetReserved sl nr))).dataWrite
            ((metaSetReserved sl nr).md.start + wo) d with
        | none => left; trivial
        | some s3 =>
          simp only
          have h3 := same_dataWrite _ s3 _ _ hw
          obtain ⟨old, ho, he⟩ := same_slot _ s3 h3 idx _ hslot
          right
          exact (h3.trans (same_finishWrite s3 idx old _ _ _ _ ho he.symm)).acc h2



/-! ## relocation -/

theorem acc_placeRelocation (s s' : Db) (h : LInv s) (ha : Acc s) (nr ns : Nat) (hnr : 0 < nr)
    (hp : s.placeRelocation nr = .ok (s', ns)) : Acc s' := by
  unfold Db.placeRelocation at hp
  obtain ⟨hhp, hho⟩ := holes_pos_one s h
  cases hb : bestFit s.holes nr with
  | some hstart =>
    simp only [hb] at hp
    obtain ⟨size, hg, hsz⟩ := bestFit_alGet s.holes nr hstart hhp hho hb
    cases hrc : removeOrCompress s.holes hstart nr with
    | error e => simp [hrc] at hp
    | ok hs =>
      simp only [hrc, Except.ok.injEq, Prod.mk.injEq] at hp
      obtain ⟨rfl, rfl⟩ := hp
      have hrc' := fun x => removeOrCompress_cnt s.holes hs hstart nr size hhp hho hg hrc x
      refine acc_of_eq s _ ha (fun x => ?_)
      have := (hrc' x).2.1
      unfold claimedDb
      simp only [cnt_append, cnt_cons, cnt_nil]
      omega
  | none =>
    simp only [hb, Except.ok.injEq, Prod.mk.injEq] at hp
    obtain ⟨rfl, rfl⟩ := hp
    have hmid : Acc { s with reserved := s.reserved ++ [(s.layoutLen, nr)] } := by
      refine acc_of_top s _ ha s.layoutLen nr (fun x => ?_) (fun x hx => free_from_len s h x hx) (layoutLen_attained s h)
      unfold claimedDb
      simp only [cnt_append, cnt_cons, cnt_nil]
      omega
    exact (same_setMinLen { s with reserved := s.reserved ++ [(s.layoutLen, nr)] } (s.layoutLen + nr)).acc hmid

theorem acc_writeRelocate (s : Db) (h : LInv s) (ha : Acc s) (idx : Nat) (sl cur : Slot) (d : List UInt8) (wo nl nr cl ns : Nat)
    (hs : s.slot? idx = some cur) (hcur : extOf cur = extOf sl) (hres : (ns, nr) ∈ s.reserved) :
    IsPanic (s.writeRelocate idx sl d wo nl nr cl ns).2 ∨ Acc (s.writeRelocate idx sl d wo nl nr cl ns).1 := by
  unfold Db.writeRelocate
  cases hc : s.dataCopy sl.md.start ns cl with
  | error o => right; exact ha
  | ok s1 =>
    simp only
    have h1 := same_dataCopy s s1 _ _ _ hc
    cases hw : s1.dataWrite (ns + wo) d with
    | none => left; trivial
    | some s2 =>
      simp only
      have h2 := h1.trans (same_dataWrite s1 s2 _ _ hw)
      have hi2 := h2.linv h
      have ha2 := h2.acc ha
      obtain ⟨c2, hc2, he2⟩ := same_slot s s2 h2 idx cur hs
      have hext : extOf c2 = (sl.md.start, sl.md.reserved) := by rw [he2, hcur]; rfl
      have hst2 : c2.md.start = sl.md.start ∧ c2.md.reserved = sl.md.reserved := by
        simp only [extOf, Prod.mk.injEq] at hext; exact hext
      have hv2 : (vs s2)[idx]? = some (some (sl.md.start, sl.md.reserved)) := (vs_get s2 idx _).mpr ⟨c2, hc2, hext⟩
      have hg := regions_get s2 hi2 idx _ _ hv2
      have hres2 : (ns, nr) ∈ s2.reserved := by rw [h2.2.2.1]; exact hres
      obtain ⟨rp, ro⟩ := reserved_pos_one s2 hi2
      have hga := alGet_of_mem s2.reserved (ns, nr) rp ro hres2
      unfold Db.layoutRemoveRegion
      simp only [hg, if_true, Bool.not_true, Bool.false_eq_true, if_false, hga, bne_self_eq_false]
      split
      · left; trivial
      · right
        have hnewext : extOf (metaSetLen (metaSetReserved (metaSetStart (markDirty sl 0 nl) ns) nr) nl) = (ns, nr) := by
          rw [extOf_metaSetLen, extOf_metaSetReserved]
          have := extOf_metaSetStart (markDirty sl 0 nl) ns
          simp only [extOf, Prod.mk.injEq] at this
          rw [this.1]
        unfold Db.writeIfDirty
        split
        · refine acc_of_eq s2 _ ha2 (cntEq_moved s2 _ hi2 idx c2
            { metaSetLen (metaSetReserved (metaSetStart (markDirty sl 0 nl) ns) nr) nl with st := .needsFlush } hc2 ns nr hres2
            rfl (by simpa [extOf] using hnewext) rfl ?_ rfl)
          simp [hst2.1, hst2.2]
        · refine acc_of_eq s2 _ ha2 (cntEq_moved s2 _ hi2 idx c2 (metaSetLen (metaSetReserved (metaSetStart (markDirty sl 0 nl) ns) nr) nl) hc2 ns nr hres2
            rfl hnewext rfl ?_ rfl)
          simp [Db.setSlot, hst2.1, hst2.2]

theorem acc_writeGrow (s : Db) (h : LInv s) (ha : Acc s) (idx : Nat) (sl : Slot) (d : List UInt8) (wo nl cl : Nat)
    (hs : s.slot? idx = some sl) (hnl : sl.md.reserved < nl) :
    IsPanic (s.writeGrow idx sl d wo nl cl).2 ∨ Acc (s.writeGrow idx sl d wo nl cl).1 := by
  unfold Db.writeGrow
  simp only []
  split
  · right; exact ha
  · cases hg : growReserved 64 sl.md.reserved nl with
    | none => right; exact ha
    | some nr =>
      simp only
      have hge := growReserved_ge 64 _ _ _ hg
      have hneed := growReserved_need 64 _ _ _ hg
      split
      · rename_i hl
        right; exact acc_writeExtendLast s h ha idx sl d wo nl nr hs hl hge
      · split
        · rename_i hc
          exact acc_writeExpand s h ha idx sl d wo nl nr hs (by omega) hc
        · cases hp : s.placeRelocation nr with
          | error e => right; exact ha
          | ok r =>
            obtain ⟨s', ns⟩ := r
            simp only
            obtain ⟨p1, p2, p3, p4⟩ := linv_placeRelocation s s' h nr ns (by omega) hp
            have pa := acc_placeRelocation s s' h ha nr ns (by omega) hp
            have hv : (vs s')[idx]? = some (some (extOf sl)) := by rw [p3]; exact (vs_get s idx _).mpr ⟨sl, hs, rfl⟩
            obtain ⟨cur, hc1, hc2⟩ := (vs_get s' idx _).mp hv
            exact acc_writeRelocate s' p1 pa idx sl cur d wo nl nr cl ns hc1 hc2 p2

theorem acc_writeWith (s : Db) (h : LInv s) (ha : Acc s) (idx : Nat) (d : List UInt8) (at_ : Option Nat) (tr : Bool) :
    IsPanic (s.writeWith idx d at_ tr).2 ∨ Acc (s.writeWith idx d at_ tr).1 := by
  unfold Db.writeWith
  cases hs : s.slot? idx with
  | none => right; exact ha
  | some sl =>
    simp only
    split
    · right; exact ha
    · split
      · right; exact (same_writeFits s idx sl d _ _ hs).acc ha
      · rename_i hn
        exact acc_writeGrow s h ha idx sl d _ _ _ hs (by omega)

/-! ## creation -/

theorem cntEq_added (s f : Db) (idx start size : Nat) (new : Slot) (hnew : extOf new = (start, size))
    (hslot : (s.slots[idx]? = some none ∧ f.slots = s.slots.set idx (some new)) ∨ (idx = s.slots.length ∧ f.slots = s.slots ++ [some new]))
    (f3 : f.reserved = s.reserved) (f4 : f.holes = s.holes) (f5 : f.pending = s.pending) :
    ∀ x, cnt (claimedDb f) x = cnt (claimedDb s) x + ind (start, size) x := by
  have hcnt : ∀ x, cnt (exts f.slots) x = cnt (exts s.slots) x + ind (start, size) x := by
    intro x
    rcases hslot with ⟨h1, h2⟩ | ⟨h1, h2⟩
    · rw [h2, cnt_exts_fill s.slots idx new x h1, hnew]
    · rw [h2, exts_append, cnt_append]
      simp only [exts, List.filterMap_cons, Option.map_some, List.filterMap_nil, cnt_cons, cnt_nil, hnew]; omega
  intro x
  unfold claimedDb
  simp only [cnt_append, f3, f4, f5, hcnt x]
  omega

theorem acc_create (s : Db) (id : RegionId) (h : LInv s) (ha : Acc s) : IsPanic (s.create id).2 ∨ Acc (s.create id).1 := by
  unfold Db.create
  cases hf : s.findId id with
  | some i => right; exact ha
  | none =>
    simp only
    generalize hs0 : (if (bestFit s.holes Gen.PAGE_SIZE).isNone = true then s.setMinLen (s.layoutLen + Gen.PAGE_SIZE) else s) = s0
    have h0s : Same s s0 := by rw [← hs0]; split; exact same_setMinLen _ _; exact Same.refl s
    have h0 := h0s.linv h
    have ha0 := h0s.acc ha
    have hpage : 0 < Gen.PAGE_SIZE := by decide
    obtain ⟨hhp, hho⟩ := holes_pos_one s0 h0
    -- `base` = the claimed bytes the new extent is added to
    have key : ∀ (s1 : Db) (start : Nat), (Acc s1 → False) ∨ True → (∀ (f : Db), (∀ x, cnt (claimedDb f) x = cnt (claimedDb s1) x + ind (start, Gen.PAGE_SIZE) x) → Acc f) →
        IsPanic (if (!idValid id) = true then (s1, Out.panic "validate_id") else
          (let idx := match s1.slots.findIdx? (·.isNone) with | some i => i | none => s1.slots.length
           let s2 := s1.regionsSetMinSlots (idx + 1)
           let sl : Slot := { md := { start := start, len := 0, reserved := Gen.PAGE_SIZE, id := id }, st := .needsWrite, dmin := USIZE_MAX, dmax := 0 }
           let s3 := if idx < s2.slots.length then s2.setSlot idx (some sl) else { s2 with slots := s2.slots ++ [some sl] }
           ({ s3 with regions := s3.regions ++ [(start, idx)] }, Out.okN idx))).2 ∨
        Acc (if (!idValid id) = true then (s1, Out.panic "validate_id") else
          (let idx := match s1.slots.findIdx? (·.isNone) with | some i => i | none => s1.slots.length
           let s2 := s1.regionsSetMinSlots (idx + 1)
           let sl : Slot := { md := { start := start, len := 0, reserved := Gen.PAGE_SIZE, id := id }, st := .needsWrite, dmin := USIZE_MAX, dmax := 0 }
           let s3 := if idx < s2.slots.length then s2.setSlot idx (some sl) else { s2 with slots := s2.slots ++ [some sl] }
           ({ s3 with regions := s3.regions ++ [(start, idx)] }, Out.okN idx))).1 := by
      intro s1 start _ hadd
      split
      · left; trivial
      · right
        simp only []
        generalize hidx : (match s1.slots.findIdx? (·.isNone) with | some i => i | none => s1.slots.length) = idx
        have hs2 := same_regionsSetMinSlots s1 (idx + 1)
        have hs2slots : (s1.regionsSetMinSlots (idx + 1)).slots = s1.slots := by
          unfold Db.regionsSetMinSlots; split <;> rfl
        have hcl2 : claimedDb (s1.regionsSetMinSlots (idx + 1)) = claimedDb s1 := same_claimed _ _ hs2
        apply hadd
        intro x
        rw [← hcl2]
        split
        · rename_i hlt
          rw [hs2slots] at hlt
          have hnone : s1.slots[idx]? = some none := by
            cases hfi : s1.slots.findIdx? (·.isNone) with
            | none => rw [hfi] at hidx; simp only at hidx; omega
            | some i =>
              rw [hfi] at hidx; simp only at hidx; subst hidx
              obtain ⟨hi, hp, _⟩ := List.findIdx?_eq_some_iff_getElem.mp hfi
              rw [List.getElem?_eq_getElem hi]
              cases hx : s1.slots[i] with
              | none => rfl
              | some v => simp [hx] at hp
          refine cntEq_added (s1.regionsSetMinSlots (idx + 1)) _ idx start Gen.PAGE_SIZE { md := { start := start, len := 0, reserved := Gen.PAGE_SIZE, id := id }, st := .needsWrite, dmin := USIZE_MAX, dmax := 0 } rfl ?_ ?_ ?_ ?_ x
          · exact Or.inl ⟨by rw [hs2slots]; exact hnone, rfl⟩
          all_goals rfl
        · rename_i hge
          rw [hs2slots] at hge
          have hidxlen : idx = s1.slots.length := by
            cases hfi : s1.slots.findIdx? (·.isNone) with
            | none => rw [hfi] at hidx; simp only at hidx; exact hidx.symm
            | some i =>
              rw [hfi] at hidx; simp only at hidx; subst hidx
              obtain ⟨hi, _, _⟩ := List.findIdx?_eq_some_iff_getElem.mp hfi
              omega
          refine cntEq_added (s1.regionsSetMinSlots (idx + 1)) _ idx start Gen.PAGE_SIZE { md := { start := start, len := 0, reserved := Gen.PAGE_SIZE, id := id }, st := .needsWrite, dmin := USIZE_MAX, dmax := 0 } rfl ?_ ?_ ?_ ?_ x
          · exact Or.inr ⟨by rw [hs2slots]; exact hidxlen, rfl⟩
          all_goals rfl
    cases hb : bestFit s0.holes Gen.PAGE_SIZE with
    | some hstart =>
      simp only
      obtain ⟨size, hg, hsz⟩ := bestFit_alGet s0.holes Gen.PAGE_SIZE hstart hhp hho hb
      cases hrc : removeOrCompress s0.holes hstart Gen.PAGE_SIZE with
      | error e => right; exact ha0
      | ok hs =>
        simp only
        have hrc' := fun x => removeOrCompress_cnt s0.holes hs hstart Gen.PAGE_SIZE size hhp hho hg hrc x
        refine key { s0 with holes := hs } hstart (Or.inr trivial) (fun f hf => acc_of_eq s0 f ha0 (fun x => ?_))
        rw [hf x]
        have := (hrc' x).2.1
        unfold claimedDb
        simp only [cnt_append]
        omega
    | none =>
      simp only
      exact key s0 s0.layoutLen (Or.inr trivial) (fun f hf =>
        acc_of_top s0 f ha0 s0.layoutLen Gen.PAGE_SIZE hf (fun x hx => free_from_len s0 h0 x hx) (layoutLen_attained s0 h0))


end AnyDB.C02r
