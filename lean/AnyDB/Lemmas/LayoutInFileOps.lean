import AnyDB.Lemmas.LayoutInFile
namespace AnyDB.C02r
open AnyDB Conc Db Mem

/-! ## operations that leave the file length alone -/

/-- same cached file length, same mapping size -/
def MS (s s' : Db) : Prop := s'.fileLen = s.fileLen ∧ s'.mem.size = s.mem.size

theorem MS.refl (s : Db) : MS s s := ⟨rfl, rfl⟩
theorem MS.trans {a b c : Db} (h1 : MS a b) (h2 : MS b c) : MS a c := ⟨h2.1.trans h1.1, h2.2.trans h1.2⟩

theorem Same.inf' {s s' : Db} (h : Same s s') (m : MS s s') (hi : InF s) : InF s' := h.inf m.1 m.2 hi

theorem ms_emit (s : Db) (e : Event) : MS s (s.emit e) := ⟨rfl, rfl⟩
theorem ms_regionsSetMinSlots (s : Db) (n : Nat) : MS s (s.regionsSetMinSlots n) := by
  unfold Db.regionsSetMinSlots; split <;> exact ⟨rfl, rfl⟩
theorem ms_dataWrite (s s' : Db) (off : Nat) (d : List UInt8) (h : s.dataWrite off d = some s') : MS s s' := by
  unfold Db.dataWrite at h
  split at h
  · rename_i m hm; cases h; exact ⟨rfl, size_writeAt hm⟩
  · cases h
theorem ms_dataCopy (s s' : Db) (a b n : Nat) (h : s.dataCopy a b n = .ok s') : MS s s' := by
  unfold Db.dataCopy at h
  split at h
  · cases h; exact MS.refl s
  · split at h
    · cases h
    · split at h
      · cases h
      · split at h
        · rename_i hw; cases h; exact ms_dataWrite _ _ _ _ hw
        · cases h
theorem ms_setSlot (s : Db) (idx : Nat) (o : Option Slot) : MS s (s.setSlot idx o) := ⟨rfl, rfl⟩
theorem ms_writeIfDirty (s : Db) (idx : Nat) (sl : Slot) : MS s (s.writeIfDirty idx sl) := by
  unfold Db.writeIfDirty; split <;> exact ⟨rfl, rfl⟩
theorem ms_finishWrite (s : Db) (idx : Nat) (sl : Slot) (a b c : Nat) : MS s (s.finishWrite idx sl a b c) := ms_writeIfDirty _ _ _

theorem ms_truncate (s : Db) (idx n : Nat) : MS s (s.truncate idx n).1 := by
  unfold Db.truncate
  cases hs : s.slot? idx with
  | none => exact MS.refl s
  | some sl =>
    simp only
    split
    · exact MS.refl s
    · split
      · exact MS.refl s
      · exact ms_writeIfDirty _ _ _

theorem ms_rename (s : Db) (idx : Nat) (id : RegionId) : MS s (s.rename idx id).1 := by
  unfold Db.rename
  cases hs : s.slot? idx with
  | none => exact MS.refl s
  | some sl =>
    simp only
    split
    · exact MS.refl s
    · split
      · exact MS.refl s
      · exact ms_writeIfDirty _ _ _

theorem ms_writeFits (s : Db) (idx : Nat) (sl : Slot) (d : List UInt8) (wo nl : Nat) : MS s (s.writeFits idx sl d wo nl).1 := by
  unfold Db.writeFits
  cases hw : s.dataWrite (sl.md.start + wo) d with
  | none => exact MS.refl s
  | some s1 =>
    simp only
    have h1 := ms_dataWrite s s1 _ _ hw
    split
    · exact h1.trans (ms_writeIfDirty _ _ _)
    · exact h1.trans (ms_setSlot _ _ _)

theorem ms_takeAllDirty (s : Db) : MS s s.takeAllDirty := ⟨rfl, rfl⟩
theorem ms_markCleanStep (s : Db) (x : Nat × Slot × Option (Nat × Nat)) : MS s (s.markCleanStep x) := by
  unfold Db.markCleanStep; split; exact ms_setSlot _ _ _; exact MS.refl s
theorem ms_markCleanFold (l : List (Nat × Slot × Option (Nat × Nat))) (s : Db) : MS s (l.foldl Db.markCleanStep s) := by
  induction l generalizing s with
  | nil => exact MS.refl s
  | cons a t ih => simp only [List.foldl_cons]; exact (ms_markCleanStep s a).trans (ih _)

theorem ms_flushPre (s : Db) : MS s (flushPre s) := by
  unfold flushPre
  simp only []
  have h0 := ms_takeAllDirty s
  split
  · split
    · exact h0
    · exact h0.trans ((ms_emit _ _).trans (ms_emit _ _))
  · refine MS.trans ?_ (ms_markCleanFold _ _)
    refine MS.trans ?_ ((ms_emit _ _).trans ((ms_emit _ _).trans (ms_emit _ _)))
    split
    · exact h0.trans (ms_emit _ _)
    · exact h0

theorem ms_punchIfData (acc : Db × Nat) (a b : Nat) : MS acc.1 (punchIfData acc a b).1 := by
  unfold punchIfData; split
  · exact ⟨rfl, size_punch _ _ _⟩
  · exact MS.refl _

theorem ms_fold {β : Type} (l : List β) (f : Db × Nat → β → Db × Nat) (hf : ∀ acc x, MS acc.1 (f acc x).1) (acc : Db × Nat) :
    MS acc.1 (l.foldl f acc).1 := by
  induction l generalizing acc with
  | nil => exact MS.refl _
  | cons a t ih => simp only [List.foldl_cons]; exact (hf acc a).trans (ih _)


theorem ms_punchHoles (s : Db) : MS s s.punchHoles := by
  unfold Db.punchHoles
  simp only []
  have h1 := ms_fold (List.range s.slots.length)
    (fun (acc : Db × Nat) i => match acc.1.slot? i with
      | none => acc
      | some sl => if ceilPage sl.md.len < sl.md.reserved then punchIfData acc (sl.md.start + ceilPage sl.md.len) (sl.md.reserved - ceilPage sl.md.len) else acc)
    (by intro acc x; split
        · exact MS.refl _
        · split
          · exact ms_punchIfData _ _ _
          · exact MS.refl _) (s, 0)
  have h2 := fun acc => ms_fold (s.holes.foldl (fun l h => sortedInsert l h.1 h.2) [])
    (fun (acc : Db × Nat) (h : Nat × Nat) => punchIfData acc h.1 h.2) (fun acc x => ms_punchIfData _ _ _) acc
  split
  · exact (h1.trans (h2 _)).trans (ms_emit _ _)
  · exact h1.trans (h2 _)

theorem ms_regionFlush (s : Db) (idx : Nat) : MS s (s.regionFlush idx).1 := by
  unfold Db.regionFlush
  cases hs : s.slot? idx with
  | none => exact MS.refl s
  | some sl =>
    simp only
    by_cases hb : sl.dmin < sl.dmax
    · simp only [hb, if_true, Option.isSome_some]
      cases hst : sl.st <;> exact ⟨rfl, rfl⟩
    · simp only [hb, if_false, Option.isSome_none, Bool.false_eq_true]
      cases hst : sl.st <;> exact ⟨rfl, rfl⟩

/-! ## the operations -/

theorem inf_remove (s : Db) (idx : Nat) (extra : Bool) (h : LInv s) (hi : InF s) : InF (s.remove idx extra).1 := by
  unfold Db.remove
  cases hs : s.slot? idx with
  | none => exact hi
  | some sl =>
    simp only
    split
    · exact hi
    · have hv : (vs s)[idx]? = some (some (sl.md.start, sl.md.reserved)) := (vs_get s idx _).mpr ⟨sl, hs, rfl⟩
      have hg := regions_get s h idx _ _ hv
      unfold Db.layoutRemoveRegion
      simp only [hg, if_true, Bool.not_true, Bool.false_eq_true, if_false]
      obtain ⟨a1, a2, a3, a4⟩ := (inf_parts s _).mp hi.2
      refine ⟨hi.1, (inf_parts _ _).mpr ⟨?_, a2, a3, ?_⟩⟩
      · exact inL_exts_set s.slots idx _ none a1 (fun _ h => by cases h)
      · exact inL_sortedInsert _ _ _ _ a4 (inE_slot s hi idx sl hs)

theorem inf_removeId (s : Db) (id : RegionId) (extra : Bool) (h : LInv s) (hi : InF s) : InF (s.removeId id extra).1 := by
  unfold Db.removeId
  split
  · exact hi
  · exact inf_remove s _ extra h hi

theorem inf_retain (s : Db) (keep : List RegionId) (h : LInv s) (hi : InF s) : InF (s.retain keep).1 := by
  unfold Db.retain
  generalize (List.range s.slots.length).filter _ = victims
  suffices hh : ∀ (acc : Db × Out), LInv acc.1 → InF acc.1 →
      InF (victims.foldl (fun (acc : Db × Out) i => match acc.2 with | .ok => acc.1.remove i false | _ => acc) acc).1 from hh (s, .ok) h hi
  induction victims with
  | nil => intro acc _ ha; exact ha
  | cons v t ih =>
    intro acc hl ha
    simp only [List.foldl_cons]
    split
    · exact ih _ (linv_remove acc.1 v false hl) (inf_remove acc.1 v false hl ha)
    · exact ih _ hl ha

theorem inf_promote (s : Db) (hi : InF s) : InF { s with holes := promote s.holes s.pending, pending := [] } := by
  obtain ⟨a1, a2, a3, a4⟩ := (inf_parts s _).mp hi.2
  exact ⟨hi.1, (inf_parts _ _).mpr ⟨a1, a2, inL_promote _ _ _ a3 a4, fun e he => by cases he⟩⟩

theorem inf_flush (s : Db) (hi : InF s) : InF s.flush.1 := by
  rw [flush_eq]
  exact inf_promote _ ((same_flushPre s).inf' (ms_flushPre s) hi)

theorem inf_compact (s : Db) (hi : InF s) : InF s.compact.1 := by
  unfold Db.compact
  have hf := inf_flush s hi
  generalize s.flush = r at hf
  obtain ⟨s1, o⟩ := r
  simp only at hf ⊢
  cases o <;> first | exact hf | exact (same_punchHoles s1).inf' (ms_punchHoles s1) hf

end AnyDB.C02r
