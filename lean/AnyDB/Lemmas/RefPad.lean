import AnyDB.Lemmas.ReopenInv
namespace AnyDB.C01r
open AnyDB Conc Db C02r Mem

/-! ## references that differ only by trailing free slots -/

def nones (k : Nat) : Ref := List.replicate k none

theorem nones_add (a b : Nat) : nones (a + b) = nones a ++ nones b := by
  unfold nones
  induction a with
  | zero => simp
  | succ n ih => rw [Nat.succ_add, List.replicate_succ, List.replicate_succ, ih]; rfl

/-- equal up to trailing free slots -/
def EqUpTo (r r' : Ref) : Prop := ∃ a b, r ++ nones a = r' ++ nones b

theorem EqUpTo.refl (r : Ref) : EqUpTo r r := ⟨0, 0, rfl⟩
theorem EqUpTo.trans {x y z : Ref} (h1 : EqUpTo x y) (h2 : EqUpTo y z) : EqUpTo x z := by
  obtain ⟨a, b, e1⟩ := h1
  obtain ⟨c, d, e2⟩ := h2
  refine ⟨a + c, d + b, ?_⟩
  rw [nones_add, ← List.append_assoc, e1, List.append_assoc, ← nones_add, Nat.add_comm b c, nones_add, ← List.append_assoc, e2,
    List.append_assoc, ← nones_add]

theorem findIdx_nones (k : Nat) (p : Option (RegionId × List UInt8) → Bool) (hp : p none = false) : (nones k).findIdx? p = none := by
  rw [List.findIdx?_eq_none_iff]
  intro x hx
  unfold nones at hx
  rw [List.mem_replicate] at hx
  rw [hx.2]; exact hp

theorem refFind_pad (r : Ref) (k : Nat) (id : RegionId) : refFind (r ++ nones k) id = refFind r id := by
  unfold refFind
  rw [List.findIdx?_append, findIdx_nones k _ rfl]
  simp

theorem refFind_lt (r : Ref) (id : RegionId) (i : Nat) (h : refFind r id = some i) : i < r.length := by
  unfold refFind at h
  exact (List.findIdx?_eq_some_iff_getElem.mp h).1

theorem refOn_pad (r : Ref) (k : Nat) (id : RegionId) (f) : refOn (r ++ nones k) id f = refOn r id f ++ nones k := by
  unfold refOn
  rw [refFind_pad]
  cases hf : refFind r id with
  | none => rfl
  | some i =>
    have hi := refFind_lt r id i hf
    simp only []
    rw [List.getElem?_append_left hi]
    cases hj : r[i]?.join with
    | none => rfl
    | some e => simp only []; rw [List.set_append_left _ _ hi]

/-- a step on a padded reference is the step on the reference, padded -/
theorem refStep_pad (r : Ref) (k : Nat) (op : Op) : ∃ k', refStep (r ++ nones k) op = refStep r op ++ nones k' := by
  cases op with
  | create id =>
    simp only [refStep, refFind_pad]
    cases hf : refFind r id with
    | some i => exact ⟨k, rfl⟩
    | none =>
      simp only []
      rw [List.findIdx?_append]
      cases hn : r.findIdx? (·.isNone) with
      | some i =>
        have hi : i < r.length := (List.findIdx?_eq_some_iff_getElem.mp hn).1
        refine ⟨k, ?_⟩
        simp only [Option.or]
        rw [List.set_append_left _ _ hi]
      | none =>
        simp only [Option.none_or]
        cases k with
        | zero => exact ⟨0, by simp [nones]⟩
        | succ j =>
          refine ⟨j, ?_⟩
          have : (nones (j + 1)).findIdx? (·.isNone) = some 0 := by simp [nones, List.replicate_succ, List.findIdx?_cons]
          rw [this]
          simp only [Option.map_some, Nat.zero_add]
          rw [List.set_append_right _ _ (Nat.le_refl _), Nat.sub_self]
          simp [nones, List.replicate_succ]
  | write id d => exact ⟨k, refOn_pad r k id _⟩
  | writeAt id a d => exact ⟨k, refOn_pad r k id _⟩
  | truncateWrite id a d => exact ⟨k, refOn_pad r k id _⟩
  | truncate id n => exact ⟨k, refOn_pad r k id _⟩
  | rename id n =>
    simp only [refStep, refFind_pad]
    split
    · exact ⟨k, rfl⟩
    · exact ⟨k, refOn_pad r k id _⟩
  | remove id => exact ⟨k, refOn_pad r k id _⟩
  | retain ids =>
    refine ⟨k, ?_⟩
    simp only [refStep, refRetain, List.map_append]
    congr 1
    simp [nones]
  | removeHeld id => exact ⟨k, rfl⟩
  | flush => exact ⟨k, rfl⟩
  | regionFlush id => exact ⟨k, rfl⟩
  | compact => exact ⟨k, rfl⟩
  | reopen n => exact ⟨k, rfl⟩
  | setMinLen n => exact ⟨k, rfl⟩
  | setMinRegions n => exact ⟨k, rfl⟩

theorem eqUpTo_step (r r' : Ref) (op : Op) (h : EqUpTo r r') : EqUpTo (refStep r op) (refStep r' op) := by
  obtain ⟨a, b, e⟩ := h
  obtain ⟨a', ea⟩ := refStep_pad r a op
  obtain ⟨b', eb⟩ := refStep_pad r' b op
  exact ⟨a', b', by rw [← ea, ← eb, e]⟩

theorem small_nones (k : Nat) : Small (nones k) := by
  unfold Small
  rw [List.all_eq_true]
  intro x hx
  unfold nones at hx
  rw [List.mem_replicate] at hx
  rw [hx.2]

theorem small_append (a b : Ref) : Small (a ++ b) ↔ Small a ∧ Small b := by
  unfold Small; rw [List.all_append, Bool.and_eq_true]

theorem small_pad (r : Ref) (k : Nat) : Small (r ++ nones k) ↔ Small r := by
  rw [small_append]
  exact ⟨fun h => h.1, fun h => ⟨h, small_nones k⟩⟩

theorem small_eqUpTo (r r' : Ref) (h : EqUpTo r r') : Small r ↔ Small r' := by
  obtain ⟨a, b, e⟩ := h
  rw [← small_pad r a, e, small_pad]

end AnyDB.C01r
