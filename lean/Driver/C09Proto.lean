import AnyDB.Props.C09
import AnyDB.Model.Wire

/-! Line protocol for the directed schedules of C09:
`sched <k> | <n0> <b> <kind> <L> <n> <bad>` — what a reader observed in a real schedule.  The driver answers
`possible` when the SMALL instance of the model (same kind of write, 2 stored elements, batch of 1–3) has an
interleaving of one reader pass with the writer's effects that yields the same abstract observation
(length old/new, all elements below it readable, all of them right), `impossible …` otherwise. -/
namespace AnyDB.C09Proto
open AnyDB Wire

/-- abstract observation: (the length is the new one, every element below it was readable, all values right) -/
abbrev AObs := Bool × Bool × Bool

/-! raw kinds -/
open Publish in
def rawOutcomes (reloc : Bool) : List AObs :=
  let prog := if reloc then C09.progReloc else C09.progInPlace
  let s0 := run Sys.init [.wStart [10, 11] false C09.progInPlace, .wStep, .wStep, .wStep]
  let n := prog.length
  (List.range (n + 1)).flatMap fun j1 => (List.range (n + 1 - j1)).flatMap fun d2 => (List.range (n + 1 - j1 - d2)).map fun d3 =>
    let steps (k : Nat) := List.replicate k Act.wStep
    let s := run s0 ([.wStart [12] reloc prog] ++ steps j1 ++ [.rLoad] ++ steps d2 ++ [.rSnap] ++ steps d3)
    let l := s.rL.getD 0
    let reads := (List.range l).map (fun i => (step s (.rRead i)).2)
    let okAll := reads.all (fun r => match r with | some (some _) => true | _ => false)
    let right := (List.range l).all (fun i => (step s (.rRead i)).2 == some (some (10 + i)))
    (decide (l = 3), okAll, right)

/-! compressed kinds (page size 4) -/
open PublishC in
def compOutcomes (kind : String) : List AObs :=
  let setup : List Act := match kind with
    | "comp-append" => [.wStart (.append [⟨false, [10, 11, 12, 13]⟩]) prog, .wStep, .wStep, .wStep, .wStep, .wStep]
    | _ => [.wStart (.append [⟨true, [10, 11]⟩]) prog, .wStep, .wStep, .wStep, .wStep, .wStep]
  let w : WKind := match kind with
    | "comp-append" => .append [⟨true, [14]⟩]
    | "comp-extend" => .extendTail [12]
    | _ => .rewriteTail [⟨false, [10, 11, 12, 13]⟩, ⟨true, [14]⟩]
  let oldLen := match kind with | "comp-append" => 4 | _ => 2
  let s0 := run Sys.init setup
  let n := prog.length
  (List.range (n + 1)).flatMap fun j1 => (List.range (n + 1 - j1)).flatMap fun d2 => (List.range (n + 1 - j1 - d2)).flatMap fun d3 =>
    let steps (k : Nat) := List.replicate k Act.wStep
    let s := run s0 ([.wStart w prog] ++ steps j1 ++ [.rLoad] ++ steps d2 ++ [.rLock] ++ steps d3)
    let l := s.rL.getD 0
    match s.rIdx with
    | none => [(decide (l ≠ oldLen), true, true)]        -- the reader is still waiting for the index lock: nothing observed
    | some _ =>
      match (step s .rReadAll).2 with
      | some (some vals) => [(decide (l ≠ oldLen), true, vals == (List.range l).map (· + 10))]
      -- garbage: the decoder may fail (nothing readable) or produce values (all "readable", wrong)
      | _ => [(decide (l ≠ oldLen), false, false), (decide (l ≠ oldLen), true, false)]

def outcomes (kind : String) : List AObs :=
  match kind with
  | "raw-inplace" => rawOutcomes false
  | "raw-reloc" => rawOutcomes true
  | k => compOutcomes k

def handle (u : Unit) (line : String) : Unit × String :=
  match words line with
  | "case" :: _ => (u, line.trimAscii.toString)
  | "sched" :: _ =>
    match (line.splitOn " | ") with
    | [_, obs] =>
      match words obs with
      | [n0, b, kind, l, n, bad] =>
        match n0.toNat?, b.toNat?, l.toNat?, n.toNat? with
        | some n0, some b, some l, some n =>
          if l ≠ n0 ∧ l ≠ n0 + b then (u, s!"impossible length {l}")
          else
            let o : AObs := (decide (l = n0 + b), decide (n = l), bad == "-")
            -- an incomplete read is also a wrong one in the abstract observation
            let o : AObs := if o.2.1 then o else (o.1, false, false)
            if (outcomes kind).contains o then (u, "possible") else (u, s!"impossible {o}")
        | _, _, _, _ => (u, "possible")          -- nothing was observed (hung / panicked: the oracle speaks)
      | _ => (u, "bad-op")
    | _ => (u, "bad-op")
  | _ => (u, "bad-op")

end AnyDB.C09Proto
