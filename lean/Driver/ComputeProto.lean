import AnyDB.Model.Compute
import AnyDB.Model.Wire

/-! Line protocol for the compute engine: `case … m= w= f=`, `compute mf cap | s0 s1 …` → defining formula. -/
namespace AnyDB.ComputeProto
open AnyDB Wire Compute

structure St where
  m : String
  w : Nat
  f : Nat

def kvGet (ws : List String) (k : String) : Option String :=
  ws.findSome? (fun w => match w.splitOn "=" with | [a, b] => if a == k then some b else none | _ => none)

def parseList (s : String) : List Nat :=
  if s == "-" then [] else (s.splitOn ",").filterMap (·.toNat?)

def natsStr (l : List Nat) : String := if l.isEmpty then "-" else ",".intercalate (l.map toString)

def handle (s : St) (line : String) : St × String :=
  match words line with
  | "case" :: rest =>
    ({ m := (kvGet rest "m").getD "", w := ((kvGet rest "w").bind (·.toNat?)).getD 0, f := ((kvGet rest "f").bind (·.toNat?)).getD 0 },
     line.trimAscii.toString)
  | "compute" :: _ =>
    let srcPart := match line.splitOn " | " with
      | [_, x] => x.trimAscii.toString
      | _ => ""
    let srcs := ((srcPart.splitOn " ").filter (· ≠ "")).map parseList
    -- compute_sum with an empty window subtracts the entering element from a zero sum: checked
    -- subtraction fails at the first non-zero element (incremental and from-scratch alike)
    let firstNz := (srcs.getD 0 []).findIdx? (· != 0)
    if s.m == "sum" && s.w == 0 && firstNz.isSome then
      (s, s!"err:Underflow | R {natsStr (List.replicate (firstNz.getD 0) 0)}")
    else
    match spec s.m s.w s.f srcs with
    | some r => (s, s!"ok | R {natsStr r}")
    | none => (s, "unmodelled")
  | _ => (s, "ok")

end AnyDB.ComputeProto
