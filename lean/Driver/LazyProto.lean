import AnyDB.Model.Lazy
import AnyDB.Model.Wire

/-! Line protocol for the lazy engine (C15):
`case n kind=<from1|from2|from3|delta|chg|agg>`, `src k v,v,…` (replace source k), `map v,v,…`,
`range a b`, `one i`, `sorted i,i,…` -/
namespace AnyDB.LazyProto
open AnyDB Wire Lazy

structure St where
  kind : String
  srcs : List (List Nat)
  mapping : List Nat

def parseList (s : String) : List Nat := if s == "-" then [] else (s.splitOn ",").filterMap (·.toNat?)
def natsStr (l : List Nat) : String := if l.isEmpty then "-" else ",".intercalate (l.map toString)
def optStr : Option Nat → String | some v => toString v | none => "_"
def optsStr (l : List (Option Nat)) : String := if l.isEmpty then "-" else ",".intercalate (l.map optStr)

def setAt (l : List (List Nat)) (k : Nat) (v : List Nat) : List (List Nat) :=
  if k < l.length then l.set k v else l ++ List.replicate (k - l.length) [] ++ [v]

def handle (s : St) (line : String) : St × String :=
  match words line with
  | "case" :: rest =>
    let kind := (rest.findSome? (fun w => match w.splitOn "=" with | ["kind", k] => some k | _ => none)).getD "from1"
    -- mixed index types (from2m, from3a/b/c): the harness keeps the non-governing sources at least as long as the others,
    -- so the length over all sources is the length over the governing ones
    let n := if kind == "from2" || kind == "from2m" then 2 else if kind == "from3" || kind == "from3a" || kind == "from3b" || kind == "from3c" then 3 else 1
    ({ kind := kind, srcs := List.replicate n [], mapping := [] }, line.trimAscii.toString)
  | ["src", k, vs] => ({ s with srcs := setAt s.srcs (k.toNat?.getD 0) (parseList vs) }, "ok")
  | ["map", vs] => ({ s with mapping := parseList vs }, "ok")
  | ["len"] =>
    let n := match s.kind with
      | "delta" => (s.srcs.headD []).length
      | "chg" => (s.srcs.headD []).length
      | "agg" => s.mapping.length
      | _ => lenN s.srcs
    (s, s!"ok {n}")
  | ["range", a, b] =>
    let a := a.toNat?.getD 0; let b := b.toNat?.getD 0
    match s.kind with
    | "delta" => (s, match deltaRange (s.srcs.headD []) s.mapping a b with | .ok l => s!"ok {natsStr l}" | .panic => "panic")
    | "chg" => (s, match chgRange (s.srcs.headD []) s.mapping a b with | .ok l => s!"ok {natsStr l}" | .panic => "panic")
    | "agg" => (s, match aggRange (s.srcs.headD []) s.mapping a b with | .ok l => s!"ok {optsStr l}" | .panic => "panic")
    | _ => (s, s!"ok {natsStr (fromRange s.srcs a b)}")
  | ["one", i] =>
    let i := i.toNat?.getD 0
    match s.kind with
    | "delta" => (s, match deltaOne (s.srcs.headD []) s.mapping i with | .ok v => s!"ok {optStr v}" | .panic => "panic")
    | "chg" => (s, match chgOne (s.srcs.headD []) s.mapping i with | .ok v => s!"ok {optStr v}" | .panic => "panic")
    | "agg" => (s, match aggOne (s.srcs.headD []) s.mapping i with | some v => s!"ok {optStr v}" | none => "ok none")
    | _ => (s, s!"ok {optStr (fromOne s.srcs i)}")
  | ["sorted", is] =>
    let idx := parseList is
    match s.kind with
    | "delta" => (s, match deltaSorted (s.srcs.headD []) s.mapping idx with | .ok l => s!"ok {natsStr l}" | .panic => "panic")
    | "chg" => (s, match chgSorted (s.srcs.headD []) s.mapping idx with | .ok l => s!"ok {natsStr l}" | .panic => "panic")
    | "agg" => (s, "unmodelled")
    | _ => (s, s!"ok {natsStr (fromSorted s.srcs idx)}")
  | _ => (s, "bad-op")

end AnyDB.LazyProto
