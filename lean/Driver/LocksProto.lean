import AnyDB.Model.LockOrder
import AnyDB.Model.Wire

/-! Line protocol for the sched engine's trace mode (C11): `trace <name> a:R:Class#k r:Class#k …` -/
namespace AnyDB.LocksProto
open AnyDB Wire LockOrder

def parseEv (w : String) : Option TEv :=
  match w.splitOn ":" with
  | ["a", m, ci] => match ci.splitOn "#" with
    | [c, i] => some (.acq c (i.toNat?.getD 0) (m == "W"))
    | _ => none
  | ["r", ci] => match ci.splitOn "#" with
    | [c, i] => some (.rel c (i.toNat?.getD 0))
    | _ => none
  | _ => none

def handle (u : Unit) (line : String) : Unit × String :=
  match words line with
  | "trace" :: _ :: evs =>
    if evs == ["PANIC"] then (u, "panic") else
    let tr := (evs.filter (· ≠ "-")).filterMap parseEv
    (u, match checkFrom [] tr with
      | .ok => "ok"
      | .violation h r => s!"violation {h}->{r}"
      | .unknownClass c => s!"unknown-class {c}"
      | .leftHeld c => s!"left-held {c}"
      | .badRelease c => s!"bad-release {c}")
  | _ => (u, line.trimAscii.toString)

end AnyDB.LocksProto
