import Driver.RawdbProto
open AnyDB

partial def loopRawdb (h : IO.FS.Stream) (out : IO.FS.Stream) (s : Db) : IO Unit := do
  let line ← h.getLine
  if line.isEmpty then return ()
  let (s', ans) := RawdbProto.handle s line
  out.putStrLn ans
  loopRawdb h out s'

def main (args : List String) : IO UInt32 := do
  let stdin ← IO.getStdin
  let stdout ← IO.getStdout
  match args with
  | ["rawdb"] => loopRawdb stdin stdout Db.init; return 0
  | _ => IO.eprintln "usage: anydb_driver <engine>"; return 2
