import AnyDB.Generated.Consts
import AnyDB.Generated.Orders
import AnyDB.Model.Mem
import AnyDB.Model.Rawdb
import AnyDB.Model.Vec
import Driver.RawdbProto
import Driver.VecProto
import Driver.ComputeProto
import Driver.CodecProto
import Driver.ImportProto
import Driver.LazyProto
import Driver.LocksProto
import Driver.OpenLockProto
import Driver.C10Proto
import Driver.C09Proto
open AnyDB

partial def loopWith {σ : Type} (h : IO.FS.Stream) (out : IO.FS.Stream) (handle : σ → String → σ × String) (s : σ) : IO Unit := do
  let line ← h.getLine
  if line.isEmpty then return ()
  let (s', ans) := handle s line
  out.putStrLn ans
  loopWith h out handle s'

def main (args : List String) : IO UInt32 := do
  let stdin ← IO.getStdin
  let stdout ← IO.getStdout
  match args with
  | ["rawdb"] => loopWith stdin stdout RawdbProto.handle Db.init; return 0
  | ["vec"] => loopWith stdin stdout VecProto.handle (VecM.V.init .raw 8 0); return 0
  | ["compute"] => loopWith stdin stdout ComputeProto.handle { m := "", w := 0, f := 0 }; return 0
  | ["codec"] => loopWith stdin stdout CodecProto.handle (); return 0
  | ["c09"] => loopWith stdin stdout C09Proto.handle (); return 0
  | ["c10"] => loopWith stdin stdout C10Proto.handle (); return 0
  | ["openlock"] => loopWith stdin stdout OpenLockProto.handle OpenLock.Dir.init; return 0
  | ["locks"] => loopWith stdin stdout LocksProto.handle (); return 0
  | ["import"] => loopWith stdin stdout ImportProto.handle (); return 0
  | ["lazy"] => loopWith stdin stdout LazyProto.handle { kind := "from1", srcs := [], mapping := [] }; return 0
  | _ => IO.eprintln "usage: anydb_driver <engine>"; return 2
