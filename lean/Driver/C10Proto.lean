import AnyDB.Props.C10
import AnyDB.Model.Wire

/-! Line protocol for the directed schedules of C10: `sched <k> | R s:z … | H … | P … | V … | F <file length>`;
the driver runs the executable disjointness check (proved sound: `C10_check_sound`) on the real layout. -/
namespace AnyDB.C10Proto
open AnyDB Wire Conc

def parsePairs (s : String) : List E :=
  ((s.trimAscii.toString.splitOn " ").filter (· ≠ "")).filterMap (fun w =>
    match w.splitOn ":" with
    | [a, b] => match a.toNat?, b.toNat? with
      | some x, some y => some (x, y)
      | _, _ => none
    | _ => none)

def section_ (parts : List String) (tag : String) : String :=
  match parts.find? (fun p => p.trimAscii.toString.startsWith (tag ++ " ") || p.trimAscii.toString == tag) with
  | some p => (p.trimAscii.toString.drop tag.length).toString
  | none => ""

def handle (u : Unit) (line : String) : Unit × String :=
  match words line with
  | "case" :: _ => (u, line.trimAscii.toString)
  | "sched" :: _ =>
    let parts := line.splitOn " | "
    if parts.length < 5 then (u, "L -") else
    let regs := parsePairs (section_ parts "R")
    let holes := parsePairs (section_ parts "H")
    let pend := parsePairs (section_ parts "P")
    let resv := parsePairs (section_ parts "V")
    let flen := ((section_ parts "F").trimAscii.toString.toNat?).getD 0
    let all := regs ++ resv ++ holes ++ pend
    if !pwDisj all then (u, "L overlap")
    else if regs.any (fun e => decide (flen < e.1 + e.2)) then (u, "L region-beyond-file")
    else (u, "L ok")
  | _ => (u, "bad-op")

end AnyDB.C10Proto
