import AnyDB.Model.Rawdb
import AnyDB.Model.Wire

/-! Line protocol for the rawdb engine: request line → (state, canonical answer line). -/
namespace AnyDB.RawdbProto
open AnyDB Wire

def parseOp (ws : List String) : Option Op :=
  match ws with
  | ["create", id] => (unhex id).map Op.create
  | ["write", id, n, seed] => do
      let id ← unhex id; let n ← n.toNat?; let sd ← seed.toNat?
      pure (Op.write id (filler n sd))
  | ["write_at", id, a, n, seed] => do
      let id ← unhex id; let a ← a.toNat?; let n ← n.toNat?; let sd ← seed.toNat?
      pure (Op.writeAt id a (filler n sd))
  | ["truncate", id, n] => do
      let id ← unhex id; let n ← n.toNat?
      pure (Op.truncate id n)
  | ["truncate_write", id, a, n, seed] => do
      let id ← unhex id; let a ← a.toNat?; let n ← n.toNat?; let sd ← seed.toNat?
      pure (Op.truncateWrite id a (filler n sd))
  | ["rename", id, nid] => do
      let id ← unhex id; let nid ← unhex nid
      pure (Op.rename id nid)
  | ["remove", id] => (unhex id).map Op.remove
  | ["remove_held", id] => (unhex id).map Op.removeHeld
  | "retain" :: ids => (ids.mapM unhex).map Op.retain
  | ["flush"] => some Op.flush
  | ["region_flush", id] => (unhex id).map Op.regionFlush
  | ["compact"] => some Op.compact
  | ["reopen", n] => n.toNat?.map Op.reopen
  | ["set_min_len", n] => n.toNat?.map Op.setMinLen
  | ["set_min_regions", n] => n.toNat?.map Op.setMinRegions
  | _ => none

def hexId (bs : List UInt8) : String := if bs.isEmpty then "-" else hexBytes bs

def errName : ErrKind → String
  | .writeOutOfBounds => "WriteOutOfBounds"
  | .truncateInvalid => "TruncateInvalid"
  | .regionAlreadyExists => "RegionAlreadyExists"
  | .regionNotFound => "RegionNotFound"
  | .regionStillReferenced => "RegionStillReferenced"
  | .regionIndexMismatch => "RegionIndexMismatch"
  | .regionMetadataUnwritten => "RegionMetadataUnwritten"
  | .regionSizeOverflow => "RegionSizeOverflow"
  | .holeTooSmall => "HoleTooSmall"
  | .overlappingCopyRanges => "OverlappingCopyRanges"
  | .invariantViolation => "InvariantViolation"
  | .noSuchRegion => "NoSuchRegion"

def outStr : Out → String
  | .ok => "ok"
  | .okN n => s!"ok:{n}"
  | .err k => s!"err:{errName k}"
  | .panic _ => "panic"

def sortPairs (l : List (Nat × Nat)) : List (Nat × Nat) := l.foldl (fun acc h => sortedInsert acc h.1 h.2) []
def pairsStr (l : List (Nat × Nat)) : String :=
  " ".intercalate (l.map (fun p => s!"{p.1}:{p.2}"))

def fileCh : FileId → String | .data => "d" | .regions => "r"

def eventStr : Event → String
  | .dataWrite off bs => s!"w{off}:{bs.length}:{fnvList bs}"
  | .metaWrite idx m => match m with
      | some m => s!"m{idx}:{m.start}:{m.len}:{m.reserved}:{hexId m.id}"
      | none => s!"m{idx}:zero"
  | .setLen f n => s!"L{fileCh f}{n}"
  | .flushAsync f off len => s!"a{fileCh f}{off}:{len}"
  | .flushAsyncAll f => s!"A{fileCh f}"
  | .sync f => s!"s{fileCh f}"
  | .punch off len => s!"p{off}:{len}"

/-- runs of consecutive punch events are sorted (rayon's order is not defined) -/
def evKind (e : String) : Nat := if e.startsWith "p" then 1 else if e.endsWith ":zero" then 2 else 0

def canonEvents (es : List String) : List String :=
  let rec go (acc : List String) (run : List String) (rk : Nat) : List String → List String
    | [] => acc ++ run.mergeSort (· ≤ ·)
    | e :: t =>
      let k := evKind e
      if k != 0 && (run.isEmpty || k == rk) then go acc (run ++ [e]) k t
      else if k != 0 then go (acc ++ run.mergeSort (· ≤ ·)) [e] k t
      else go (acc ++ run.mergeSort (· ≤ ·) ++ [e]) [] 0 t
  go [] [] 0 es

/-- canonical dump: result | regions | holes | pending | reserved | file | events -/
def dump (s : Db) (o : Out) : String :=
  let regs := (List.range s.slots.length).filterMap (fun i =>
    match s.slot? i with
    | some sl =>
      let inLayout := if alGet s.regions sl.md.start == some i then "L" else "x"
      some s!"{i}:{sl.md.start}:{sl.md.len}:{sl.md.reserved}:{hexId sl.md.id}:{fnvArrayRange s.mem.bytes sl.md.start sl.md.len}:{inLayout}"
    | none => none)
  let evs := canonEvents (s.log.map eventStr)
  s!"{outStr o} | R {" ".intercalate regs} | H {pairsStr (sortPairs s.holes)} | P {pairsStr s.pending} | V {pairsStr (sortPairs s.reserved)} | F {s.fileLen} {s.layoutLen} {s.rfile.length} {s.regions.length} | E {" ".intercalate evs}"

def handle (s : Db) (line : String) : Db × String :=
  match words line with
  | "case" :: _ => (Db.init, line.trimAscii.toString)
  | ws =>
    match parseOp ws with
    | none => (s, "bad-op")
    | some op =>
      let (s', o) := step { s with log := [] } op
      (s', dump s' o)

end AnyDB.RawdbProto
