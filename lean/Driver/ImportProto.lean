import AnyDB.Model.Import
import AnyDB.Model.Wire

/-! Line protocol for the import engine (C14). -/
namespace AnyDB.ImportProto
open AnyDB Wire Codec Import

def fmtOf : String → Format
  | "bytes" => .bytes | "zc" => .zeroCopy | "pco" => .pco | "lz4" => .lz4 | _ => .zstd

def entryOf (s : String) : Entry := if s == "forced" then .forced else .plain

def outStr : Outcome → String
  | .kept n => s!"kept:{n}" | .fresh => "fresh" | .discarded => "discarded"
  | .errVersion => "errVersion" | .errFormat => "errFormat" | .errCorrupt => "err:CorruptedRegion"

def handle (u : Unit) (line : String) : Unit × String :=
  match words line with
  | ["imp", fc, ec, vc, fr, er, vr, n] =>
    let n := n.toNat?.getD 0
    -- creation: import on an empty database, then n pushes + flush
    let c := importVec none (entryOf ec) (vc.toNat?.getD 0) (fmtOf fc)
    let stored := c.2.map (fun s => { s with len := n })
    let r1 := importVec stored (entryOf er) (vr.toNat?.getD 0) (fmtOf fr)
    let r2 := importVec r1.2 (entryOf ec) (vc.toNat?.getD 0) (fmtOf fc)
    let o2 := match r2.1 with
      | .kept 0 | .discarded | .fresh => "empty"
      | o => outStr o
    -- a stored vector without elements: kept-empty, created and discarded are indistinguishable from outside
    let o1 := if n == 0 then (match r1.1 with | .kept 0 | .discarded | .fresh => "empty" | o => outStr o) else outStr r1.1
    (u, s!"{o1} | then {o2}")
  | ["impc", f, ec, er, ver, n] =>
    let n := n.toNat?.getD 0
    let v := ver.toNat?.getD 0
    let c := importVec none (entryOf ec) v (fmtOf f)
    let stored := c.2.map (fun s => { s with len := n, corrupt := true })
    let r1 := importVec stored (entryOf er) v (fmtOf f)
    (u, s!"{outStr r1.1} | region {if r1.2 == stored then "intact" else "changed"}")
  | _ => (u, line.trimAscii.toString)

end AnyDB.ImportProto
