import AnyDB.Model.OpenLock
import AnyDB.Model.Wire

/-! Line protocol for the open-lock engine (C18). -/
namespace AnyDB.OpenLockProto
open AnyDB Wire OpenLock

def outStr : Out → String
  | .opened v => s!"opened:{v}"
  | .refused => "refused"
  | .ok => "ok"
  | .na => "na"

def parseOp (ws : List String) : Option Op :=
  match ws with
  | ["open", m] => m.toNat?.map Op.openKeep
  | ["probe", _, m] => m.toNat?.map Op.probe
  | ["ref", _] => some Op.addRef
  | ["drop", _] => some Op.dropRef
  | ["touch", v] => v.toNat?.map Op.touch
  | _ => none

def handle (d : Dir) (line : String) : Dir × String :=
  match words line with
  | "case" :: _ => (Dir.init, line.trimAscii.toString)
  | ["bg"] => (d, s!"{if d.holders > 0 then "ok" else "na"} | D {d.fs.data.len}")   -- a background task is not a reference
  | ws =>
    match parseOp ws with
    | none => (d, "bad-op")
    | some op =>
      let (d', o) := step d op
      (d', s!"{outStr o} | D {d'.fs.data.len}")

end AnyDB.OpenLockProto
