import AnyDB.Model.Vec
import AnyDB.Model.Wire

/-! Line protocol for the vec engine: request line → (state, canonical answer line). -/
namespace AnyDB.VecProto
open AnyDB Wire VecM

def parseCs (s : String) : Option (List Nat) :=
  if s == "-" then some [] else (s.splitOn ",").mapM (·.toNat?)

def parseOp (ws : List String) : Option Op :=
  match ws with
  | ["push", v] => v.toNat?.map Op.push
  | ["pushn", n, sd] => do let n ← n.toNat?; let sd ← sd.toNat?; pure (Op.pushMany n sd)
  | ["truncate", n] => n.toNat?.map Op.truncate
  | ["update", i, v] => do let i ← i.toNat?; let v ← v.toNat?; pure (Op.update i v)
  | ["delete", i] => i.toNat?.map Op.delete
  | ["take", i] => i.toNat?.map Op.take
  | ["fill", v] => v.toNat?.map Op.fill
  | ["cpush", i, v] => do let i ← i.toNat?; let v ← v.toNat?; pure (Op.checkedPush i v)
  | ["write", cs] => (parseCs cs).map Op.write
  | ["flush", cs] => (parseCs cs).map Op.write
  | ["swrite", s, cs] => do let s ← s.toNat?; let cs ← parseCs cs; pure (Op.stampedWrite s cs)
  | ["commit", s, cs] => do let s ← s.toNat?; let cs ← parseCs cs; pure (Op.commit s cs)
  | ["rollback"] => some Op.rollback
  | ["rollback_before", s] => s.toNat?.map Op.rollbackBefore
  | ["reset"] => some Op.reset
  | ["reset_unsaved"] => some Op.resetUnsaved
  | ["reimport"] => some Op.reimport
  | ["reimport", _] => some Op.reimport
  | ["fdel", s] => s.toNat?.map Op.faultDelete
  | ["ftrunc", s, n] => do let s ← s.toNat?; let n ← n.toNat?; pure (Op.faultTruncate s n)
  | ["fpatch", s, off, v] => do let s ← s.toNat?; let off ← off.toNat?; let v ← v.toNat?; pure (Op.faultPatch s off v)
  | _ => none

def ekName : EK → String
  | .writeOutOfBounds => "WriteOutOfBounds" | .truncateInvalid => "TruncateInvalid"
  | .indexTooHigh => "IndexTooHigh" | .unexpectedIndex => "UnexpectedIndex" | .io => "IO"
  | .wrongLength => "WrongLength" | .overflow => "Overflow" | .underflow => "Underflow"
  | .stampMismatch => "StampMismatch" | .corruptedRegion => "CorruptedRegion"
  | .expectVecToHaveIndex => "ExpectVecToHaveIndex" | .differentVersion => "DifferentVersion"
  | .differentFormat => "DifferentFormat" | .other => "Other"

def outStr : Out → String
  | .ok => "ok"
  | .okB b => if b then "ok:true" else "ok:false"
  | .okS s => s!"ok:{s}"
  | .okV v => match v with | some x => s!"ok:some:{x}" | none => "ok:none"
  | .okI i => s!"ok:{i}"
  | .err k => s!"err:{ekName k}"
  | .panic => "panic"

def itemBytes : Option Nat → List UInt8
  | none => [0]
  | some v => 1 :: leBytes 8 v

def itemStr : Option Nat → String
  | none => "_"
  | some v => toString (v % 2 ^ 64)

def natsStr (l : List Nat) : String := ",".intercalate (l.map toString)

def dump (s : V) (o : Out) : String :=
  let it := s.items
  let h := (it.1.foldl (fun (h : UInt64) x => (itemBytes x).foldl fnvStep h) fnvInit)
  let head := " ".intercalate ((it.1.take 6).map itemStr)
  let tail := " ".intercalate (((it.1.drop (it.1.length - 3)).map itemStr))
  let pages := match s.kind with
    | .raw => ""
    | .comp => " ".intercalate (s.pagesDisk.map (fun (e : Nat × Nat × Nat × Bool) =>s!"{e.1}:{e.2.1}:{e.2.2.1}:{if e.2.2.2 then "r" else "c"}")) ++ s!" D{s.dataLen}"
  let oob := s.oob || it.2
  s!"{outStr o} | L {s.len} {s.storedLen} {s.realStoredLen} {s.stamp} | H {natsStr s.holes} | I {it.1.length} {h} [{head}] [{tail}] | C {natsStr (s.changes.map (·.1))} | P {pages} | X {if oob then 1 else 0}"

/-! ### C08: the read plan shared with harness/src/read_paths.rs -/

def candidates (len stored pp : Nat) : List Nat :=
  [0, 1, stored - 1, stored, stored + 1, len - 1, len, len + 1, pp - 1, pp, pp + 1, 2 ^ 63 - 1]

def pick (seed j len stored pp : Nat) : Nat :=
  let m := mix ((seed * 1000003 + j) % U64)
  if m % 3 == 0 then (m / 3) % (len + 2)
  else (candidates len stored pp).getD ((m / 3) % 12) 0

/-- reference restricted to `[a, b)`: the non-deleted elements in index order -/
def specRange (items : List (Option Nat)) (a b : Nat) : List Nat :=
  ((items.drop a).take (min b items.length - a)).filterMap id

def feedVal (h : UInt64) (v : Nat) : UInt64 := (leBytes 8 v).foldl fnvStep h

def readHash (s : V) (seed : Nat) : UInt64 :=
  let items := s.items.1
  let len := items.length
  let pp := s.perPage
  let h := (List.range 24).foldl (fun (h : UInt64) k =>
    let a := pick seed (2 * k) len s.storedLen pp
    let b := pick seed (2 * k + 1) len s.storedLen pp
    fnvStep ((specRange items a b).foldl feedVal h) 0xFF) fnvInit
  (List.range 12).foldl (fun (h : UInt64) k =>
    let i := pick seed (100 + k) len s.storedLen pp
    match (items[i]?).join with
    | some v => feedVal (fnvStep h 1) v
    | none => fnvStep h 0) h

def kv (w : String) : Option (String × String) :=
  match w.splitOn "=" with
  | [k, v] => some (k, v)
  | _ => none

def initFrom (ws : List String) : V :=
  let get (k : String) (d : Nat) : Nat :=
    match (ws.filterMap kv).find? (·.1 == k) with
    | some (_, v) => v.toNat?.getD d
    | none => d
  let kind := match (ws.filterMap kv).find? (·.1 == "kind") with
    | some (_, "comp") => Kind.comp
    | _ => Kind.raw
  V.init kind (get "sz" 8) (get "keep" 0)

def handle (s : V) (line : String) : V × String :=
  match words line with
  | "case" :: rest => (initFrom rest, line.trimAscii.toString)
  | ["reads", seed] =>
    let s' := { s with oob := false }
    (s', dump s' (.okI (readHash s (seed.toNat?.getD 0)).toNat))
  | ["clonereads", _] =>
    -- C20: the battery of clone / stored-source reads changes nothing; the flag says whether it left the region
    let s' := { s with oob := s.cloneReadsOob }
    (s', dump s' .ok)
  | ws =>
    match parseOp ws with
    | none => (s, "bad-op")
    | some op =>
      let (s', o) := step { s with oob := false } op
      -- stamped_write / stamped_write_with_changes return `()`: the flag of write() is not observable
      let o := match op, o with
        | .stampedWrite _ _, .okB _ => Out.ok
        | .commit _ _, .okB _ => Out.ok
        | _, o => o
      (s', dump s' o)

end AnyDB.VecProto
