import AnyDB.Model.Codec
import AnyDB.Model.Wire

/-! Line protocol for the codec engine. -/
namespace AnyDB.CodecProto
open AnyDB Wire Codec

def errName : MetaErr → String
  | .invalidSize => "invalidSize" | .empty => "empty" | .idLenMax => "idLenMax" | .idLenFits => "idLenFits"
  | .invalidId => "invalidId" | .startAlign => "startAlign" | .reservedMin => "reservedMin"
  | .reservedAlign => "reservedAlign" | .lenExceeds => "lenExceeds"

def slotBytes (pre : List UInt8) (total : Nat) : List UInt8 :=
  (pre ++ List.replicate (total - pre.length) 0).take total

def metaAns (bs : List UInt8) : String :=
  match decMeta bs with
  | .ok m => s!"ok {m.start} {m.len} {m.reserved} {if m.id.isEmpty then "-" else hexBytes m.id}"
  | .error e => s!"err:{errName e}"

def slotOf (s : String) : List UInt8 :=
  if s == "z" then List.replicate 4096 0
  else if s.startsWith "g" then filler 4096 ((s.drop 1).toString.toNat?.getD 1)
  else slotBytes ((unhex s).getD []) 4096

def handle (u : Unit) (line : String) : Unit × String :=
  match words line with
  | "case" :: _ => (u, line.trimAscii.toString)
  | ["meta", pre, total] =>
    (u, metaAns (slotBytes ((unhex pre).getD []) (total.toNat?.getD 4096)))
  | ["le", w, h] =>
    (u, match decLE (w.toNat?.getD 0) ((unhex h).getD []) with | some v => s!"ok {v}" | none => "err:wrongLength")
  | ["arr", n, h] =>
    (u, match decArray (n.toNat?.getD 0) ((unhex h).getD []) with
        | some v => s!"ok {if v.isEmpty then "-" else hexBytes v}" | none => "err:wrongLength")
  | ["open", spec] =>
    let slots := (spec.splitOn ";").map slotOf
    let loaded := fill slots
    let parts := (List.range loaded.length).filterMap (fun i =>
      match (loaded[i]?).join with
      | some m => some s!"{i}:{m.start}:{m.len}:{m.reserved}:{if m.id.isEmpty then "-" else hexBytes m.id}"
      | none => none)
    (u, "ok " ++ " ".intercalate parts)
  | _ => (u, "bad-op")

end AnyDB.CodecProto
