import AnyDB.Generated.Consts
import AnyDB.Generated.Orders
import AnyDB.Model.Mem
import AnyDB.Model.Rawdb
