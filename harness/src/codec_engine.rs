//! codec_diff: the real decoders on valid, boundary and mutated encodings (under catch_unwind),
//! one request per line, same answers expected from lean/Driver/CodecProto.lean.
//!   meta <prefixhex> <total_len>     RegionMetadata::from_bytes(prefix ++ zeros)
//!   le <width> <hex>                 <uN as Bytes>::from_bytes
//!   arr <n> <hex>                    <[u8; n] as Bytes>::from_bytes
//!   open <slot>;<slot>;…             a crafted `regions` file opened by Database::open (Regions::fill)

use std::{
    io::Write as _,
    panic::{AssertUnwindSafe, catch_unwind},
};

use rawdb::{Database, Error, RegionMetadata};
use vecdb::Bytes;

use crate::common::*;

fn meta_err(e: &Error) -> &'static str {
    match e {
        Error::InvalidMetadataSize { .. } => "invalidSize",
        Error::EmptyMetadata => "empty",
        Error::InvalidRegionId => "invalidId",
        Error::CorruptedMetadata(m) if m.contains("exceeds maximum") => "idLenMax",
        Error::CorruptedMetadata(m) if m.contains("would exceed metadata size") => "idLenFits",
        Error::CorruptedMetadata(m) if m.starts_with("start") => "startAlign",
        Error::CorruptedMetadata(m) if m.contains("less than PAGE_SIZE") => "reservedMin",
        Error::CorruptedMetadata(m) if m.starts_with("reserved") => "reservedAlign",
        Error::CorruptedMetadata(m) if m.starts_with("len") => "lenExceeds",
        _ => "other",
    }
}

fn slot_bytes(prefix: &[u8], total: usize) -> Vec<u8> {
    let mut b = prefix.to_vec();
    b.resize(total.max(prefix.len()).min(total.max(0)).max(0), 0);
    if prefix.len() > total { b.truncate(total); }
    b
}

fn dec_meta(bytes: &[u8]) -> String {
    match catch_unwind(AssertUnwindSafe(|| RegionMetadata::from_bytes(bytes))) {
        Ok(Ok(m)) => format!("ok {} {} {} {}", m.start(), m.len(), m.reserved(), hex(m.id().as_bytes())),
        Ok(Err(e)) => format!("err:{}", meta_err(&e)),
        Err(_) => "panic".into(),
    }
}

fn dec_le(w: usize, b: &[u8]) -> String {
    let r = catch_unwind(AssertUnwindSafe(|| -> Option<u128> {
        match w {
            1 => u8::from_bytes(b).ok().map(|v| v as u128),
            2 => u16::from_bytes(b).ok().map(|v| v as u128),
            4 => u32::from_bytes(b).ok().map(|v| v as u128),
            8 => u64::from_bytes(b).ok().map(|v| v as u128),
            16 => u128::from_bytes(b).ok(),
            _ => None,
        }
    }));
    match r { Ok(Some(v)) => format!("ok {v}"), Ok(None) => "err:wrongLength".into(), Err(_) => "panic".into() }
}

macro_rules! arr_dec { ($n:expr, $b:expr) => { <[u8; $n]>::from_bytes($b).ok().map(|a| a.to_vec()) }; }
fn dec_arr(n: usize, b: &[u8]) -> String {
    let r = catch_unwind(AssertUnwindSafe(|| match n {
        1 => arr_dec!(1, b), 3 => arr_dec!(3, b), 16 => arr_dec!(16, b), 20 => arr_dec!(20, b), 33 => arr_dec!(33, b),
        64 => arr_dec!(64, b), 65 => arr_dec!(65, b), _ => None,
    }));
    match r { Ok(Some(v)) => format!("ok {}", hex(&v)), Ok(None) => "err:wrongLength".into(), Err(_) => "panic".into() }
}

fn do_open(tmp: &std::path::Path, spec: &str) -> String {
    // slots: "z" zero slot | "g<seed>" garbage | "<prefixhex>" prefix padded with zeros
    let dir = tempfile::tempdir_in(tmp).unwrap();
    {
        // let the library create both files, then replace the metadata file
        let db = Database::open(dir.path()).unwrap();
        drop(db);
    }
    let mut file = vec![];
    for s in spec.split(';') {
        let mut slot = if s == "z" { vec![] } else if let Some(seed) = s.strip_prefix('g') { filler(4096, seed.parse().unwrap_or(1)) } else { unhex(s).unwrap_or_default() };
        slot.resize(4096, 0);
        file.extend_from_slice(&slot);
    }
    std::fs::write(dir.path().join("regions"), &file).unwrap();
    let r = catch_unwind(AssertUnwindSafe(|| Database::open(dir.path())));
    match r {
        Ok(Ok(db)) => {
            let regs = db.regions();
            let mut out: Vec<String> = vec![];
            for (i, r) in regs.index_to_region().iter().enumerate() {
                if let Some(r) = r {
                    let m = r.meta();
                    out.push(format!("{i}:{}:{}:{}:{}", m.start(), m.len(), m.reserved(), hex(m.id().as_bytes())));
                }
            }
            format!("ok {}", out.join(" "))
        }
        Ok(Err(_)) => "err".into(),
        Err(_) => "panic".into(),
    }
}

pub fn exec(tmp: &std::path::Path, line: &str) -> String {
    let ws: Vec<&str> = line.split_whitespace().collect();
    match ws.first().copied() {
        Some("case") => line.to_string(),
        Some("meta") => {
            let prefix = unhex(ws[1]).unwrap_or_default();
            let total: usize = ws[2].parse().unwrap_or(4096);
            dec_meta(&slot_bytes(&prefix, total))
        }
        Some("le") => dec_le(ws[1].parse().unwrap_or(0), &unhex(ws[2]).unwrap_or_default()),
        Some("arr") => dec_arr(ws[1].parse().unwrap_or(0), &unhex(ws[2]).unwrap_or_default()),
        Some("open") => do_open(tmp, ws[1]),
        _ => "bad-op".into(),
    }
}

fn enc_meta(start: u64, len: u64, reserved: u64, id_len: u64, id: &[u8]) -> Vec<u8> {
    let mut b = vec![];
    for v in [start, len, reserved, id_len] { b.extend_from_slice(&v.to_le_bytes()); }
    b.extend_from_slice(id);
    b
}

fn gen_id(r: &mut Rng) -> Vec<u8> {
    match r.below(12) {
        0 => vec![],
        1 => b"a".to_vec(),
        2 => "région-ü∑".as_bytes().to_vec(),
        3 => vec![b'x'; 1023],
        4 => vec![b'x'; 1024],
        5 => vec![b'x'; 1025],
        6 => vec![0xC0, 0x80],                         // overlong
        7 => vec![0xED, 0xA0, 0x80],                   // surrogate
        8 => vec![0xF4, 0x90, 0x80, 0x80],             // > U+10FFFF
        9 => vec![b'a', 0xE2, 0x82],                   // truncated sequence
        10 => vec![0x07, b'b', 0x7F],                  // control characters (not rejected by the decoder)
        _ => (0..r.below(40)).map(|_| r.below(256) as u8).collect(),
    }
}

pub fn gen_line(r: &mut Rng) -> String {
    let starts = [0u64, 4096, 8192, 4095, 4097, 1 << 32, (1 << 32) + 1, 1 << 63, u64::MAX - 4095, u64::MAX];
    let reserves = [0u64, 1, 4095, 4096, 4097, 8192, 12288, 1 << 32, 1 << 40, 1 << 63, u64::MAX - 4095];
    match r.weighted(&[40, 12, 6, 14]) {
        0 => {
            let id = gen_id(r);
            let reserved = if r.chance(2, 3) { 4096 * (1 + r.below(64)) } else { *r.pick(&reserves) };
            let len = match r.below(6) { 0 => 0, 1 => reserved, 2 => reserved.wrapping_add(1), 3 => reserved.saturating_sub(1), 4 => 1, _ => r.below(reserved.max(1)) };
            let id_len = match r.below(30) { 0 => id.len() as u64 + 1, 1 => 4064, 2 => 4065, 3 => 1 << 32, 4 => u64::MAX, 5 => 1025, _ => id.len() as u64 };
            let start = if r.chance(2, 3) { 4096 * r.below(1 << 20) } else { *r.pick(&starts) };
            let mut b = if r.chance(1, 40) { vec![0u8; 32] } else { enc_meta(start, len, reserved, id_len, &id) };
            // mutations: flip a byte of the fixed part, or damage the total length
            if r.chance(1, 8) { let k = r.below(b.len().min(40) as u64) as usize; b[k] ^= 1 << r.below(8); }
            let total = match r.below(40) { 0 => 0, 1 => 4095, 2 => 4097, 3 => 31, 4 => 8192, _ => 4096 };
            format!("meta {} {total}", hex(&b))
        }
        1 => {
            let w = *r.pick(&[1usize, 2, 4, 8, 16]);
            let n = match r.below(5) { 0 => w + 1, 1 => w.saturating_sub(1), 2 => 0, _ => w };
            let b: Vec<u8> = match r.below(4) { 0 => vec![0xFF; n], 1 => vec![0; n], 2 => { let mut v = vec![0; n]; if n > 0 { v[n - 1] = 0x80; } v } _ => (0..n).map(|_| r.below(256) as u8).collect() };
            format!("le {w} {}", hex(&b))
        }
        2 => {
            let n = *r.pick(&[1usize, 3, 16, 20, 33, 64, 65]);
            let m = match r.below(4) { 0 => n + 1, 1 => n - 1, _ => n };
            let b: Vec<u8> = (0..m).map(|_| r.below(256) as u8).collect();
            format!("arr {n} {}", hex(&b))
        }
        _ => {
            // a metadata file with interleaved valid and invalid slots; valid extents are disjoint
            let n = 1 + r.below(6);
            let mut next = 0u64;
            let mut slots = vec![];
            for i in 0..n {
                match r.below(6) {
                    0 => slots.push("z".to_string()),
                    1 => slots.push(format!("g{}", r.below(1000))),
                    2 => {
                        // invalid by one rule
                        let b = match r.below(4) {
                            0 => enc_meta(next + 1, 0, 4096, 1, b"q"),
                            1 => enc_meta(next, 5000, 4096, 1, b"q"),
                            2 => enc_meta(next, 0, 4096, 2, &[0xC0, 0x80]),
                            _ => enc_meta(next, 0, 100, 1, b"q"),
                        };
                        slots.push(hex(&b));
                    }
                    _ => {
                        let reserved = 4096 * (1 + r.below(3));
                        let len = r.below(reserved + 1);
                        let id = format!("r{i}");
                        slots.push(hex(&enc_meta(next, len, reserved, id.len() as u64, id.as_bytes())));
                        next += reserved + 4096 * r.below(2);
                    }
                }
            }
            format!("open {}", slots.join(";"))
        }
    }
}

/// `harness codec gen|run …`
pub fn main(args: &Args) -> i32 {
    quiet_panics();
    let tmp = std::path::PathBuf::from(args.get("--tmp").unwrap_or("/verif/.cache/tmp"));
    std::fs::create_dir_all(&tmp).unwrap();
    match args.0.get(1).map(|s| s.as_str()).unwrap_or("") {
        "gen" => {
            let seed = args.num("--seed", 1);
            let cases = args.num("--cases", 10);
            let first = args.num("--first-case", 0);
            let len = args.num("--len", 50);
            let mut ops_out = std::io::BufWriter::new(std::fs::File::create(args.get("--ops").unwrap()).unwrap());
            let mut impl_out = std::io::BufWriter::new(std::fs::File::create(args.get("--out").unwrap()).unwrap());
            for c in first..first + cases {
                let mut r = Rng::new(seed.wrapping_mul(1_000_003).wrapping_add(c).wrapping_mul(7));
                let l = format!("case {c}");
                writeln!(ops_out, "{l}").unwrap();
                writeln!(impl_out, "{l}").unwrap();
                for _ in 0..len {
                    let l = gen_line(&mut r);
                    let o = exec(&tmp, &l);
                    let orc = if o == "panic" { " | O fail:panic; C17: decoder panicked" } else { " | O ok" };
                    writeln!(ops_out, "{l}").unwrap();
                    writeln!(impl_out, "{o}{orc}").unwrap();
                }
            }
            0
        }
        "run" => {
            let text = std::fs::read_to_string(args.get("--ops").unwrap()).unwrap();
            for l in text.lines() {
                let o = exec(&tmp, l);
                if l.starts_with("case") { println!("{o}"); continue; }
                let orc = if o == "panic" { " | O fail:panic; C17: decoder panicked" } else { " | O ok" };
                println!("{o}{orc}");
            }
            0
        }
        _ => { eprintln!("usage: harness codec gen|run …"); 2 }
    }
}
