//! sched (C11 trace mode, C09/C10 directed schedules).
//!
//! Trace mode: every public operation of rawdb and vecdb is run ALONE, in a spread of allocator /
//! vector states that select its lock-acquisition paths, with the guarded lock shim reporting every
//! request / acquisition / release (class = type name of the protected value, instance = address).
//! One line per scenario: `trace <name> a:R:Class#k a:W:Class#k r:Class#k …`.  The Lean driver checks
//! every trace against the lock order (`Locks.rank`) — the per-operation obligation that the progress
//! theorem of `Props/C11.lean` turns into "no schedule of any combination of operations deadlocks".

use std::{
    collections::BTreeMap,
    io::Write as _,
    panic::{AssertUnwindSafe, catch_unwind},
    sync::{Arc, Mutex},
};

use rawdb::{Database, verif};
use vecdb::{
    AnyStoredVec, AnyVec, BytesVec, EagerVec, Exit, ImportOptions, ImportableVec, LZ4Vec, PcoVec, ReadableVec, Stamp, StoredVec,
    Version, WritableVec,
};

use crate::common::*;

thread_local! { static ME: u64 = { static N: std::sync::atomic::AtomicU64 = std::sync::atomic::AtomicU64::new(1); N.fetch_add(1, std::sync::atomic::Ordering::SeqCst) }; }

pub type Trace = Arc<Mutex<Vec<(u64, String, usize, bool, u8)>>>; // thread, class, addr, write, phase(0 req,1 acq,2 rel)

pub fn short_class(c: &str) -> String {
    // type_name of the protected value → last path segment without generics
    let base = c.split('<').next().unwrap_or(c);
    let seg = base.rsplit("::").next().unwrap_or(base);
    if c.starts_with('(') { return "DirtyBounds".into(); }
    if c.contains("Vec<") && c.contains("JoinHandle") { return "BgTasks".into(); }
    if c == "bool" { return "BgSync".into(); }
    if c == "()" { return "ExitLock".into(); }
    seg.to_string()
}

pub fn install(trace: Trace) {
    verif::set_lock_tap(Some(Arc::new(move |ev: &verif::LockEvent| {
        let ph = match ev.phase { verif::LockPhase::Request => 0, verif::LockPhase::Acquired => 1, verif::LockPhase::Released => 2 };
        let me = ME.with(|m| *m);
        trace.lock().unwrap().push((me, ev.class.to_string(), ev.addr, ev.write, ph));
    })));
}

pub fn render(tr: &[(u64, String, usize, bool, u8)]) -> String {
    // instances are numbered per trace in order of first appearance; only the calling thread's events
    let mut ids: BTreeMap<usize, usize> = BTreeMap::new();
    let me = ME.with(|m| *m);
    let mut out = vec![];
    for (t, class, addr, write, ph) in tr {
        if *t != me { continue; }
        let n = ids.len();
        let id = *ids.entry(*addr).or_insert(n);
        let c = short_class(class);
        match ph {
            1 => out.push(format!("a:{}:{c}#{id}", if *write { "W" } else { "R" })),
            2 => out.push(format!("r:{c}#{id}")),
            _ => {}
        }
    }
    if out.is_empty() { "-".into() } else { out.join(" ") }
}

struct Ctx { _dir: tempfile::TempDir, db: Database }

fn fresh(tmp: &std::path::Path) -> Ctx {
    let dir = tempfile::tempdir_in(tmp).unwrap();
    let db = Database::open(dir.path()).unwrap();
    Ctx { _dir: dir, db }
}

/// (name, setup+op) — the closure gets a recorder it switches on around the operation under test
type Scn = (&'static str, Box<dyn Fn(&std::path::Path, &dyn Fn(&dyn Fn()))>);

fn scenarios() -> Vec<Scn> {
    let mut v: Vec<Scn> = vec![];
    macro_rules! scn { ($name:expr, |$tmp:ident, $rec:ident| $body:block) => { v.push(($name, Box::new(move |$tmp: &std::path::Path, $rec: &dyn Fn(&dyn Fn())| $body))); }; }
    // ---- rawdb ---------------------------------------------------------------------------------
    scn!("db_create_region", |tmp, rec| { let c = fresh(tmp); rec(&|| { c.db.create_region_if_needed("a").unwrap(); }); });
    scn!("db_create_region_existing", |tmp, rec| { let c = fresh(tmp); c.db.create_region_if_needed("a").unwrap(); rec(&|| { c.db.create_region_if_needed("a").unwrap(); }); });
    scn!("db_create_region_in_hole", |tmp, rec| { let c = fresh(tmp); let _a = c.db.create_region_if_needed("a").unwrap(); c.db.create_region_if_needed("b").unwrap(); c.db.create_region_if_needed("c").unwrap(); c.db.remove_region("b").unwrap(); c.db.flush().unwrap(); rec(&|| { c.db.create_region_if_needed("d").unwrap(); }); });
    scn!("region_write_fits", |tmp, rec| { let c = fresh(tmp); let a = c.db.create_region_if_needed("a").unwrap(); rec(&|| { a.write(&[1u8; 100]).unwrap(); }); });
    scn!("region_write_extend_last", |tmp, rec| { let c = fresh(tmp); let a = c.db.create_region_if_needed("a").unwrap(); rec(&|| { a.write(&[1u8; 9000]).unwrap(); }); });
    scn!("region_write_grow_file", |tmp, rec| { let c = fresh(tmp); let a = c.db.create_region_if_needed("a").unwrap(); rec(&|| { a.write(&vec![1u8; 3 << 20]).unwrap(); }); });
    scn!("region_write_expand_into_hole", |tmp, rec| { let c = fresh(tmp); let a = c.db.create_region_if_needed("a").unwrap(); c.db.create_region_if_needed("b").unwrap(); let _c2 = c.db.create_region_if_needed("c").unwrap(); c.db.remove_region("b").unwrap(); c.db.flush().unwrap(); rec(&|| { a.write(&[1u8; 5000]).unwrap(); }); });
    scn!("region_write_relocate_to_end", |tmp, rec| { let c = fresh(tmp); let a = c.db.create_region_if_needed("a").unwrap(); let _b = c.db.create_region_if_needed("b").unwrap(); rec(&|| { a.write(&[1u8; 9000]).unwrap(); }); });
    scn!("region_write_relocate_into_hole", |tmp, rec| { let c = fresh(tmp); let a = c.db.create_region_if_needed("a").unwrap(); let b = c.db.create_region_if_needed("b").unwrap(); b.write(&[2u8; 20000]).unwrap(); let _k = c.db.create_region_if_needed("k").unwrap(); drop(b); c.db.remove_region("b").unwrap(); c.db.flush().unwrap(); let _z = c.db.create_region_if_needed("z").unwrap(); rec(&|| { a.write(&[1u8; 9000]).unwrap(); }); });
    scn!("region_write_at", |tmp, rec| { let c = fresh(tmp); let a = c.db.create_region_if_needed("a").unwrap(); a.write(&[1u8; 100]).unwrap(); rec(&|| { a.write_at(&[3u8; 10], 50).unwrap(); }); });
    scn!("region_truncate", |tmp, rec| { let c = fresh(tmp); let a = c.db.create_region_if_needed("a").unwrap(); a.write(&[1u8; 100]).unwrap(); rec(&|| { a.truncate(10).unwrap(); }); });
    scn!("region_truncate_write", |tmp, rec| { let c = fresh(tmp); let a = c.db.create_region_if_needed("a").unwrap(); a.write(&[1u8; 100]).unwrap(); rec(&|| { a.truncate_write(10, &[5u8; 30]).unwrap(); }); });
    scn!("region_rename", |tmp, rec| { let c = fresh(tmp); let a = c.db.create_region_if_needed("a").unwrap(); rec(&|| { a.rename("b").unwrap(); }); });
    scn!("region_remove", |tmp, rec| { let c = fresh(tmp); c.db.create_region_if_needed("a").unwrap(); rec(&|| { c.db.remove_region("a").unwrap(); }); });
    scn!("db_retain_regions", |tmp, rec| { let c = fresh(tmp); c.db.create_region_if_needed("a").unwrap(); c.db.create_region_if_needed("b").unwrap(); rec(&|| { c.db.retain_regions(["a".to_string()].into_iter().collect()).unwrap(); }); });
    scn!("region_flush_dirty", |tmp, rec| { let c = fresh(tmp); let a = c.db.create_region_if_needed("a").unwrap(); a.write(&[1u8; 100]).unwrap(); rec(&|| { a.flush().unwrap(); }); });
    scn!("region_flush_clean", |tmp, rec| { let c = fresh(tmp); let a = c.db.create_region_if_needed("a").unwrap(); a.write(&[1u8; 100]).unwrap(); a.flush().unwrap(); rec(&|| { a.flush().unwrap(); }); });
    scn!("db_flush_dirty", |tmp, rec| { let c = fresh(tmp); let a = c.db.create_region_if_needed("a").unwrap(); a.write(&[1u8; 100]).unwrap(); rec(&|| { c.db.flush().unwrap(); }); });
    scn!("db_flush_nothing_dirty_pending_holes", |tmp, rec| { let c = fresh(tmp); let a = c.db.create_region_if_needed("a").unwrap(); a.write(&[1u8; 100]).unwrap(); c.db.flush().unwrap(); drop(a); c.db.remove_region("a").unwrap(); rec(&|| { c.db.flush().unwrap(); }); });
    scn!("db_compact", |tmp, rec| { let c = fresh(tmp); let a = c.db.create_region_if_needed("a").unwrap(); a.write(&[1u8; 9000]).unwrap(); a.truncate(10).unwrap(); c.db.create_region_if_needed("b").unwrap(); c.db.remove_region("b").unwrap(); rec(&|| { c.db.compact().unwrap(); }); });
    scn!("db_compact_background", |tmp, rec| { let c = fresh(tmp); let a = c.db.create_region_if_needed("a").unwrap(); a.write(&[1u8; 9000]).unwrap(); rec(&|| { c.db.run_bg(|db| db.compact()); c.db.sync_bg_tasks().unwrap(); }); });
    scn!("reader_create_read_drop", |tmp, rec| { let c = fresh(tmp); let a = c.db.create_region_if_needed("a").unwrap(); a.write(&[1u8; 100]).unwrap(); rec(&|| { let r = a.create_reader(); let _ = r.read_all().len(); drop(r); }); });
    scn!("db_set_min_len", |tmp, rec| { let c = fresh(tmp); rec(&|| { c.db.set_min_len(5 << 20).unwrap(); }); });
    scn!("db_set_min_regions", |tmp, rec| { let c = fresh(tmp); rec(&|| { c.db.set_min_regions(50).unwrap(); }); });
    scn!("db_get_region", |tmp, rec| { let c = fresh(tmp); c.db.create_region_if_needed("a").unwrap(); rec(&|| { let _ = c.db.get_region("a"); }); });
    scn!("db_disk_usage", |tmp, rec| { let c = fresh(tmp); rec(&|| { let _ = c.db.disk_usage(); }); });
    // ---- vecdb ---------------------------------------------------------------------------------
    scn!("bytes_import", |tmp, rec| { let c = fresh(tmp); rec(&|| { let _v: BytesVec<usize, u64> = BytesVec::forced_import(&c.db, "v", Version::ONE).unwrap(); }); });
    scn!("bytes_push_write", |tmp, rec| { let c = fresh(tmp); let mut v: BytesVec<usize, u64> = BytesVec::forced_import(&c.db, "v", Version::ONE).unwrap(); for i in 0..100 { v.push(i); } let vr = std::cell::RefCell::new(v); rec(&|| { vr.borrow_mut().write().unwrap(); }); });
    scn!("bytes_write_with_holes_and_updates", |tmp, rec| { let c = fresh(tmp); let mut v: BytesVec<usize, u64> = BytesVec::forced_import(&c.db, "v", Version::ONE).unwrap(); for i in 0..100 { v.push(i); } v.write().unwrap(); v.delete(3); v.update(5, 9).unwrap(); v.push(7); let vr = std::cell::RefCell::new(v); rec(&|| { vr.borrow_mut().write().unwrap(); }); });
    scn!("bytes_write_removing_holes_region", |tmp, rec| { let c = fresh(tmp); let mut v: BytesVec<usize, u64> = BytesVec::forced_import(&c.db, "v", Version::ONE).unwrap(); for i in 0..10 { v.push(i); } v.delete(3); v.write().unwrap(); v.update(3, 1).unwrap(); let vr = std::cell::RefCell::new(v); rec(&|| { vr.borrow_mut().write().unwrap(); }); });
    scn!("bytes_flush", |tmp, rec| { let c = fresh(tmp); let mut v: BytesVec<usize, u64> = BytesVec::forced_import(&c.db, "v", Version::ONE).unwrap(); for i in 0..100 { v.push(i); } let vr = std::cell::RefCell::new(v); rec(&|| { vr.borrow_mut().flush().unwrap(); }); });
    scn!("bytes_reads", |tmp, rec| { let c = fresh(tmp); let mut v: BytesVec<usize, u64> = BytesVec::forced_import(&c.db, "v", Version::ONE).unwrap(); for i in 0..100 { v.push(i); } v.write().unwrap(); v.push(1); rec(&|| { let _ = v.collect(); let _ = v.collect_range_at(3, 50); let _ = v.collect_one_at(7); let r = v.reader(); let _ = r.get(3); drop(r); let mut cur = v.cursor(); let _ = cur.get(5); let _ = v.read_sorted_at(&[1, 5, 9]); }); });
    scn!("bytes_clone_reads", |tmp, rec| { let c = fresh(tmp); let mut v: BytesVec<usize, u64> = BytesVec::forced_import(&c.db, "v", Version::ONE).unwrap(); for i in 0..100 { v.push(i); } v.write().unwrap(); let ro = v.read_only_clone(); rec(&|| { let _ = ro.collect(); let _ = ro.collect_range_at(3, 50); let _ = ro.collect_one_at(7); let _ = ro.len(); }); });
    scn!("bytes_io_source_reads", |tmp, rec| { let c = fresh(tmp); let mut v: BytesVec<usize, u64> = BytesVec::forced_import(&c.db, "v", Version::ONE).unwrap(); for i in 0..5000 { v.push(i); } v.write().unwrap(); vecdb::verif::set_mmap_crossover_bytes(0); rec(&|| { let _ = v.collect(); let _ = v.fold_stored_io(0, 5000, 0u64, |a, x| a + x); }); vecdb::verif::set_mmap_crossover_bytes(1 << 30); });
    scn!("bytes_commit_and_rollback", |tmp, rec| { let c = fresh(tmp); let o: ImportOptions = (&c.db, "v", Version::ONE).into(); let mut v: BytesVec<usize, u64> = BytesVec::forced_import_with(o.with_saved_stamped_changes(3)).unwrap(); for i in 0..10 { v.push(i); } v.stamped_write_with_changes(Stamp::new(1)).unwrap(); v.push(3); let vr = std::cell::RefCell::new(v); rec(&|| { let mut v = vr.borrow_mut(); v.stamped_write_with_changes(Stamp::new(2)).unwrap(); v.rollback().unwrap(); }); });
    scn!("pco_import", |tmp, rec| { let c = fresh(tmp); rec(&|| { let _v: PcoVec<usize, u64> = PcoVec::forced_import(&c.db, "v", Version::ONE).unwrap(); }); });
    scn!("pco_write_fresh_pages", |tmp, rec| { let c = fresh(tmp); let mut v: PcoVec<usize, u64> = PcoVec::forced_import(&c.db, "v", Version::ONE).unwrap(); for i in 0..5000 { v.push(i); } let vr = std::cell::RefCell::new(v); rec(&|| { vr.borrow_mut().write().unwrap(); }); });
    scn!("pco_write_fast_append", |tmp, rec| { let c = fresh(tmp); let mut v: PcoVec<usize, u64> = PcoVec::forced_import(&c.db, "v", Version::ONE).unwrap(); for i in 0..10 { v.push(i); } v.write().unwrap(); v.push(1); let vr = std::cell::RefCell::new(v); rec(&|| { vr.borrow_mut().write().unwrap(); }); });
    scn!("pco_write_reencode_partial_page", |tmp, rec| { let c = fresh(tmp); let mut v: PcoVec<usize, u64> = PcoVec::forced_import(&c.db, "v", Version::ONE).unwrap(); for i in 0..2040 { v.push(i); } v.write().unwrap(); for i in 0..20 { v.push(i); } let vr = std::cell::RefCell::new(v); rec(&|| { vr.borrow_mut().write().unwrap(); }); });
    scn!("pco_write_index_growth", |tmp, rec| { let c = fresh(tmp); let mut v: PcoVec<usize, u64> = PcoVec::forced_import(&c.db, "v", Version::ONE).unwrap(); for i in 0..(2048 * 300) { v.push(i as u64); } let vr = std::cell::RefCell::new(v); rec(&|| { vr.borrow_mut().write().unwrap(); }); });
    scn!("pco_truncate_write", |tmp, rec| { let c = fresh(tmp); let mut v: PcoVec<usize, u64> = PcoVec::forced_import(&c.db, "v", Version::ONE).unwrap(); for i in 0..5000 { v.push(i); } v.write().unwrap(); v.truncate_if_needed_at(3000).unwrap(); let vr = std::cell::RefCell::new(v); rec(&|| { vr.borrow_mut().write().unwrap(); }); });
    scn!("pco_reads", |tmp, rec| { let c = fresh(tmp); let mut v: PcoVec<usize, u64> = PcoVec::forced_import(&c.db, "v", Version::ONE).unwrap(); for i in 0..5000 { v.push(i); } v.write().unwrap(); v.push(3); rec(&|| { let _ = v.collect(); let _ = v.collect_range_at(2000, 4100); let _ = v.collect_one_at(7); let mut cur = v.cursor(); let _ = cur.get(4000); let _ = v.read_sorted_at(&[1, 2050, 4999]); }); });
    scn!("pco_clone_reads", |tmp, rec| { let c = fresh(tmp); let mut v: PcoVec<usize, u64> = PcoVec::forced_import(&c.db, "v", Version::ONE).unwrap(); for i in 0..5000 { v.push(i); } v.write().unwrap(); let ro = v.read_only_clone(); rec(&|| { let _ = ro.collect(); let _ = ro.collect_range_at(2000, 4100); let _ = ro.collect_one_at(7); }); });
    scn!("pco_io_source_reads", |tmp, rec| { let c = fresh(tmp); let mut v: PcoVec<usize, u64> = PcoVec::forced_import(&c.db, "v", Version::ONE).unwrap(); for i in 0..5000 { v.push(i); } v.write().unwrap(); let ro = v.read_only_clone(); vecdb::verif::set_mmap_crossover_bytes(0); rec(&|| { let _ = v.collect(); let _ = ro.collect(); let _ = v.fold_stored_io(0, 5000, 0u64, |a, x| a + x); }); vecdb::verif::set_mmap_crossover_bytes(1 << 30); });
    scn!("lz4_write_and_reads", |tmp, rec| { let c = fresh(tmp); let mut v: LZ4Vec<usize, u64> = LZ4Vec::forced_import(&c.db, "v", Version::ONE).unwrap(); for i in 0..5000 { v.push(i); } let vr = std::cell::RefCell::new(v); rec(&|| { let mut v = vr.borrow_mut(); v.write().unwrap(); let _ = v.collect(); }); });
    scn!("pco_reset_write", |tmp, rec| { let c = fresh(tmp); let mut v: PcoVec<usize, u64> = PcoVec::forced_import(&c.db, "v", Version::ONE).unwrap(); for i in 0..5000 { v.push(i); } v.write().unwrap(); let vr = std::cell::RefCell::new(v); rec(&|| { let mut v = vr.borrow_mut(); v.reset().unwrap(); v.write().unwrap(); }); });
    scn!("eager_compute_under_exit_lock", |tmp, rec| { let c = fresh(tmp); let mut s: BytesVec<usize, u64> = BytesVec::forced_import(&c.db, "s", Version::ONE).unwrap(); for i in 0..100 { s.push(i); } s.write().unwrap(); let t: EagerVec<PcoVec<usize, u64>> = EagerVec::forced_import(&c.db, "t", Version::ONE).unwrap(); let e = Exit::new(); let tr = std::cell::RefCell::new(t); rec(&|| { tr.borrow_mut().compute_transform(0, &s, |(i, a, ..)| (i, a + 1), &e).unwrap(); }); });
    scn!("vec_remove", |tmp, rec| { let c = fresh(tmp); let mut v: PcoVec<usize, u64> = PcoVec::forced_import(&c.db, "v", Version::ONE).unwrap(); v.push(1); v.write().unwrap(); let vr = std::cell::RefCell::new(Some(v)); rec(&|| { vr.borrow_mut().take().unwrap().remove().unwrap(); }); });
    v
}

fn run_trace(tmp: &std::path::Path, name: &str, f: &dyn Fn(&std::path::Path, &dyn Fn(&dyn Fn()))) -> String {
    let trace: Trace = Arc::new(Mutex::new(vec![]));
    let on = Arc::new(std::sync::atomic::AtomicBool::new(false));
    {
        let t2 = trace.clone(); let on2 = on.clone();
        verif::set_lock_tap(Some(Arc::new(move |ev: &verif::LockEvent| {
            if !on2.load(std::sync::atomic::Ordering::SeqCst) { return; }
            let ph = match ev.phase { verif::LockPhase::Request => 0, verif::LockPhase::Acquired => 1, verif::LockPhase::Released => 2 };
            let me = ME.with(|m| *m);
            t2.lock().unwrap().push((me, ev.class.to_string(), ev.addr, ev.write, ph));
        })));
    }
    let rec = |op: &dyn Fn()| { on.store(true, std::sync::atomic::Ordering::SeqCst); op(); on.store(false, std::sync::atomic::Ordering::SeqCst); };
    let r = catch_unwind(AssertUnwindSafe(|| f(tmp, &rec)));
    verif::set_lock_tap(None);
    let tr = trace.lock().unwrap().clone();
    match r {
        Ok(()) => format!("trace {name} {}", render(&tr)),
        Err(_) => format!("trace {name} PANIC"),
    }
}

/// `harness sched gen|run …` (trace mode): the scenario list is fixed; `--cases` shards it
pub fn main(args: &Args) -> i32 {
    quiet_panics();
    let tmp = std::path::PathBuf::from(args.get("--tmp").unwrap_or("/verif/.cache/tmp"));
    std::fs::create_dir_all(&tmp).unwrap();
    let all = scenarios();
    match args.0.get(1).map(|s| s.as_str()).unwrap_or("") {
        "gen" => {
            let cases = args.num("--cases", 1) as usize;
            let first = args.num("--first-case", 0) as usize;
            let total = args.num("--total-cases", cases as u64) as usize;
            let per = all.len().div_ceil(total.max(1));
            let mut ops_out = std::io::BufWriter::new(std::fs::File::create(args.get("--ops").unwrap()).unwrap());
            let mut impl_out = std::io::BufWriter::new(std::fs::File::create(args.get("--out").unwrap()).unwrap());
            for c in first..first + cases {
                writeln!(ops_out, "case {c}").unwrap();
                writeln!(impl_out, "case {c}").unwrap();
                for (name, f) in all.iter().skip(c * per).take(per) {
                    let line = run_trace(&tmp, name, f.as_ref());
                    let o = if line.ends_with("PANIC") { "panic | O fail:panic" } else { "ok | O ok" };
                    writeln!(ops_out, "{line}").unwrap();
                    writeln!(impl_out, "{o}").unwrap();
                }
            }
            0
        }
        "run" => {
            // replay: re-record the named scenarios (the trace in the request line is replaced)
            let path = args.get("--ops").unwrap();
            let text = std::fs::read_to_string(path).unwrap();
            let mut new_ops = vec![];
            for l in text.lines() {
                let ws: Vec<&str> = l.split_whitespace().collect();
                if ws.first() == Some(&"trace") {
                    if let Some((name, f)) = all.iter().find(|(n, _)| *n == ws[1]) {
                        let line = run_trace(&tmp, name, f.as_ref());
                        println!("{}", if line.ends_with("PANIC") { "panic | O fail:panic" } else { "ok | O ok" });
                        new_ops.push(line);
                        continue;
                    }
                }
                println!("{l}");
                new_ops.push(l.to_string());
            }
            std::fs::write(path, new_ops.join("\n") + "\n").unwrap();
            0
        }
        "list" => { for (n, _) in &all { println!("{n}"); } 0 }
        _ => { eprintln!("usage: harness sched gen|run|list …"); 2 }
    }
}
