//! Directed schedules (C09, C10): one thread (the "subject") runs an operation and is parked at its k-th
//! lock event (request / acquisition / release reported by the guarded lock shim); while it is parked another
//! thread runs a script; then the subject is released.  Enumerating k over all events of the operation visits
//! every point at which the subject's lock-protected effects can be interleaved with another thread.

use std::{
    sync::{Arc, Condvar, Mutex, atomic::{AtomicU64, Ordering}},
    time::{Duration, Instant},
};

use rawdb::verif;

static NEXT_ID: AtomicU64 = AtomicU64::new(1000);
thread_local! { static TID: u64 = NEXT_ID.fetch_add(1, Ordering::SeqCst); }
pub fn tid() -> u64 { TID.with(|t| *t) }

#[derive(Default)]
struct State {
    subject: Option<u64>,
    pause_at: u64,        // 0 = never
    seen: u64,
    paused: bool,
    release: bool,
    event: String,
    trace: Vec<String>,
}

pub struct Ctl { m: Mutex<State>, cv: Condvar }

fn short(class: &str) -> String { crate::sched_engine::short_class(class) }

impl Ctl {
    pub fn install() -> Arc<Ctl> {
        let ctl = Arc::new(Ctl { m: Mutex::new(State::default()), cv: Condvar::new() });
        let c2 = ctl.clone();
        verif::set_lock_tap(Some(Arc::new(move |ev: &verif::LockEvent| {
            let me = tid();
            let mut st = c2.m.lock().unwrap();
            if st.subject != Some(me) { return; }
            st.seen += 1;
            let ph = match ev.phase { verif::LockPhase::Request => "req", verif::LockPhase::Acquired => "acq", verif::LockPhase::Released => "rel" };
            let desc = format!("{ph}:{}:{}", if ev.write { "W" } else { "R" }, short(ev.class));
            st.trace.push(desc.clone());
            if st.pause_at != 0 && st.seen == st.pause_at {
                st.paused = true;
                st.event = desc;
                c2.cv.notify_all();
                while !st.release { st = c2.cv.wait(st).unwrap(); }
                st.paused = false;
            }
        })));
        ctl
    }

    pub fn uninstall() { verif::set_lock_tap(None); }

    fn arm(&self, pause_at: u64) {
        let mut st = self.m.lock().unwrap();
        *st = State { pause_at, ..State::default() };
    }
}

pub struct Outcome {
    /// lock events of the subject's operation, in order
    pub trace: Vec<String>,
    /// the event at which the subject was parked (None: it finished before reaching event k)
    pub parked_at: Option<String>,
    /// the script could not finish while the subject was parked (it needed a lock the subject held) and was
    /// completed after the release
    pub script_waited: bool,
    pub subject_panicked: bool,
    pub script_panicked: bool,
    /// somebody did not come back within the limit
    pub hung: Option<&'static str>,
}

const PARK_LIMIT: Duration = Duration::from_secs(20);
const SCRIPT_SLICE: Duration = Duration::from_millis(250);

/// Runs `subject` on its own thread, parks it at its `k`-th lock event (k = 0: never), runs `script` on another
/// thread while it is parked, releases it, joins both.  Threads that do not come back are left behind (each
/// schedule works on its own database) and reported in `hung`.
pub fn run(ctl: &Arc<Ctl>, k: u64, subject: Box<dyn FnOnce() + Send + 'static>, script: Box<dyn FnOnce() + Send + 'static>) -> Outcome {
    ctl.arm(k);
    let mut out = Outcome { trace: vec![], parked_at: None, script_waited: false, subject_panicked: false, script_panicked: false, hung: None };
    let c = ctl.clone();
    let subj = std::thread::spawn(move || {
        c.m.lock().unwrap().subject = Some(tid());
        let r = std::panic::catch_unwind(std::panic::AssertUnwindSafe(subject));
        let mut st = c.m.lock().unwrap();
        st.subject = None;
        c.cv.notify_all();
        r.is_err()
    });
    // wait until the subject is parked or done
    let t0 = Instant::now();
    let parked = loop {
        let st = ctl.m.lock().unwrap();
        if st.paused { break true; }
        drop(st);
        if subj.is_finished() { break false; }
        if t0.elapsed() > PARK_LIMIT { out.hung = Some("subject (before its pause point)"); break false; }
        std::thread::sleep(Duration::from_micros(100));
    };
    if out.hung.is_some() { return out; }
    if parked { out.parked_at = Some(ctl.m.lock().unwrap().event.clone()); }
    // the script: on its own thread so that a lock held by the parked subject cannot freeze the controller
    let scr = std::thread::spawn(move || std::panic::catch_unwind(std::panic::AssertUnwindSafe(script)).is_err());
    let t1 = Instant::now();
    while !scr.is_finished() && t1.elapsed() < SCRIPT_SLICE { std::thread::sleep(Duration::from_micros(100)); }
    if !scr.is_finished() && parked { out.script_waited = true; }
    // release the subject
    { let mut st = ctl.m.lock().unwrap(); st.release = true; ctl.cv.notify_all(); }
    let t2 = Instant::now();
    while !(scr.is_finished() && subj.is_finished()) {
        if t2.elapsed() > PARK_LIMIT {
            out.hung = Some(if !scr.is_finished() && !subj.is_finished() { "both threads" } else if !scr.is_finished() { "the other thread" } else { "the parked thread" });
            break;
        }
        std::thread::sleep(Duration::from_micros(100));
    }
    out.trace = ctl.m.lock().unwrap().trace.clone();
    if out.hung.is_some() { return out; }
    out.script_panicked = scr.join().unwrap_or(true);
    out.subject_panicked = subj.join().unwrap_or(true);
    out
}
