//! c10 (C10): directed schedules on ONE rawdb database.  Thread A runs one operation on ITS region and is
//! parked at its k-th lock event; thread B meanwhile runs a script on ITS regions (create / write / grow /
//! flush / compact); A is released.  k ranges over all lock events of A's operation.
//!   case <n> a=<operation of A> b=<script of B> [hold=1]
//!   sched <k> | <layout after both finished>            (the dump is appended by the harness for the driver)
//! answer: `<event A was parked at> w=<B had to wait for A> | O <oracle>`
//! Oracle (model-free): no panic, nobody blocks forever, every region holds exactly what its own thread wrote
//! (checked by B after each of its steps and for all regions at the end), the C02 extent invariants hold at the
//! end, and a Reader of A's region created before the schedule returns A's bytes.

use std::{io::Write as _, path::PathBuf, sync::{Arc, Mutex}};

use rawdb::{Database, Reader, Region};

use crate::{common::*, dsched};

pub const A_OPS: &[&str] = &["create_fresh", "create_last_hole", "write_fits", "write_extend_last", "write_into_hole", "write_relocate_hole",
    "write_relocate_end", "truncate", "remove", "rename", "flush", "compact", "write_grow_file"];
pub const B_SCRIPTS: &[&str] = &["create_small", "create_write", "grow_flush_create", "compact", "flush_reuse"];
/// the reader clause of C10 for a reader that is being CREATED while its region moves: thread A creates a Reader of region
/// 'a' and reads everything through it (parked at every lock event of that, in particular inside `Reader::new`), thread B
/// appends to 'a' so that it relocates. The reader must show 'a' as it was or as it is, never bytes of another region.
pub const READER_PAIR: (&str, &str) = ("reader_new", "relocate_a");

fn bytes(n: usize, tag: u8) -> Vec<u8> { (0..n).map(|i| tag ^ (i as u8).wrapping_mul(31)).collect() }

struct World {
    _dir: tempfile::TempDir,
    dir: PathBuf,
    db: Database,
    /// expected contents by region id (None = removed)
    expect: Arc<Mutex<std::collections::BTreeMap<String, Option<Vec<u8>>>>>,
    fails: Arc<Mutex<Vec<String>>>,
}

fn mk(db: &Database, expect: &mut std::collections::BTreeMap<String, Option<Vec<u8>>>, id: &str, n: usize, tag: u8) -> Region {
    let r = db.create_region_if_needed(id).unwrap();
    let d = bytes(n, tag);
    if n > 0 { r.write(&d).unwrap(); }
    expect.insert(id.to_string(), Some(d));
    r
}

fn drop_region(db: &Database, expect: &mut std::collections::BTreeMap<String, Option<Vec<u8>>>, id: &str) {
    db.get_region(id).unwrap().remove().unwrap();
    expect.insert(id.to_string(), None);
}

fn prepare(tmp: &std::path::Path, a: &str) -> World {
    let dir = tempfile::tempdir_in(tmp).unwrap();
    let path = dir.path().to_path_buf();
    let db = Database::open(&path).unwrap();
    let mut e = std::collections::BTreeMap::new();
    match a {
        "create_fresh" => { mk(&db, &mut e, "y", 100, 0x50); }
        "create_last_hole" => {
            // the file is exactly full of one-page regions; one is removed and flushed: one hole, no room at the end
            for i in 0..255 { mk(&db, &mut e, &format!("r{i}"), 8, i as u8); }
            mk(&db, &mut e, "y", 100, 0x50);
            drop_region(&db, &mut e, "r100");
            db.flush().unwrap();
            // give the tail region back so that the file end is the allocation end
            let _ = db.file_len();
        }
        "write_fits" | "truncate" | "rename" | "remove" => { mk(&db, &mut e, "a", if a == "truncate" { 3000 } else { 100 }, 0xA1); mk(&db, &mut e, "y", 100, 0x50); }
        "write_extend_last" | "write_grow_file" => { mk(&db, &mut e, "y", 100, 0x50); mk(&db, &mut e, "a", 100, 0xA1); }
        "write_into_hole" => { mk(&db, &mut e, "a", 100, 0xA1); mk(&db, &mut e, "h", 10, 1); mk(&db, &mut e, "y", 100, 0x50); drop_region(&db, &mut e, "h"); db.flush().unwrap(); }
        "write_relocate_hole" => {
            { let g = mk(&db, &mut e, "g", 100, 2); g.write(&bytes(9000, 3)).unwrap(); } // 3+ pages at the front
            mk(&db, &mut e, "a", 100, 0xA1); mk(&db, &mut e, "y", 100, 0x50);
            drop_region(&db, &mut e, "g"); db.flush().unwrap();
        }
        "write_relocate_end" | "reader_new" => { mk(&db, &mut e, "a", 100, 0xA1); mk(&db, &mut e, "y", 100, 0x50); }
        "flush" | "compact" => {
            mk(&db, &mut e, "a", 100, 0xA1); mk(&db, &mut e, "q", 50, 7); mk(&db, &mut e, "y", 100, 0x50);
            db.flush().unwrap();
            db.get_region("a").unwrap().write(&bytes(700, 0xA2)).unwrap();
            let mut ea = bytes(100, 0xA1); ea.extend(bytes(700, 0xA2)); e.insert("a".into(), Some(ea));
            drop_region(&db, &mut e, "q");
        }
        _ => {}
    }
    World { _dir: dir, dir: path, db, expect: Arc::new(Mutex::new(e)), fails: Arc::new(Mutex::new(vec![])) }
}

fn verify(db: &Database, id: &str, want: &[u8], who: &str, fails: &Mutex<Vec<String>>) {
    match db.get_region(id) {
        Some(r) => {
            let rd = r.create_reader();
            let got = rd.read_all();
            if got != want {
                let at = got.iter().zip(want.iter()).position(|(x, y)| x != y).unwrap_or(got.len().min(want.len()));
                fails.lock().unwrap().push(format!("C10: region '{id}' ({who}) holds {} bytes, its thread wrote {}, first difference at byte {at}: {:?} vs {:?}", got.len(), want.len(), got.get(at), want.get(at)));
            }
        }
        None => fails.lock().unwrap().push(format!("C10: region '{id}' ({who}) has disappeared")),
    }
}

fn a_op(w: &World, a: &str) -> Box<dyn FnOnce() + Send + 'static> {
    let db = w.db.clone();
    let expect = w.expect.clone();
    let fails = w.fails.clone();
    let a = a.to_string();
    Box::new(move || {
        let set = |id: &str, v: Option<Vec<u8>>| { expect.lock().unwrap().insert(id.to_string(), v); };
        let cur = |id: &str| expect.lock().unwrap().get(id).cloned().flatten().unwrap_or_default();
        let app = |id: &str, n: usize, tag: u8| {
            let d = bytes(n, tag);
            let mut v = cur(id); v.extend_from_slice(&d);
            // the expectation is registered before the call: B never looks at A's regions
            set(id, Some(v));
            let r = db.get_region(id).unwrap();
            if let Err(e) = r.write(&d) { fails.lock().unwrap().push(format!("C10: A's write failed: {e:?}")); }
        };
        match a.as_str() {
            "create_fresh" | "create_last_hole" => {
                match db.create_region_if_needed("a") {
                    Ok(r) => {
                        let d = bytes(64, 0xA1);
                        set("a", Some(d.clone()));
                        if let Err(e) = r.write(&d) { fails.lock().unwrap().push(format!("C10: A's write failed: {e:?}")); }
                    }
                    Err(e) => fails.lock().unwrap().push(format!("C10: A's create failed: {e:?}")),
                }
            }
            "write_fits" => app("a", 200, 0xA3),
            "write_extend_last" | "write_into_hole" | "write_relocate_hole" | "write_relocate_end" => app("a", 5000, 0xA4),
            "write_grow_file" => app("a", 1_200_000, 0xA5),
            "truncate" => { let mut v = cur("a"); v.truncate(10); set("a", Some(v)); if let Err(e) = db.get_region("a").unwrap().truncate(10) { fails.lock().unwrap().push(format!("C10: A's truncate failed: {e:?}")); } }
            "remove" => {
                let old = cur("a");
                set("a", None);
                match db.get_region("a").unwrap().remove() {
                    Ok(()) => {}
                    // another handle to the region is alive (a reader, compact's scan): a refusal, the region stays
                    Err(rawdb::Error::RegionStillReferenced { .. }) => set("a", Some(old)),
                    Err(e) => fails.lock().unwrap().push(format!("C10: A's remove failed: {e:?}")),
                }
            }
            "rename" => { let v = cur("a"); set("a", None); set("a2", Some(v)); if let Err(e) = db.get_region("a").unwrap().rename("a2") { fails.lock().unwrap().push(format!("C10: A's rename failed: {e:?}")); } }
            "flush" => { if let Err(e) = db.flush() { fails.lock().unwrap().push(format!("C10: A's flush failed: {e:?}")); } }
            "compact" => { if let Err(e) = db.compact() { fails.lock().unwrap().push(format!("C10: A's compact failed: {e:?}")); } }
            "reader_new" => {
                // what region 'a' held before B touches it, and what it holds afterwards
                let old = bytes(100, 0xA1);
                let mut new = old.clone(); new.extend(bytes(5000, 0xA4));
                let r = db.get_region("a").unwrap();
                let rd = r.create_reader();
                let got = rd.read_all().to_vec();
                if got != old && got != new {
                    let at = got.iter().zip(new.iter()).position(|(x, y)| x != y).unwrap_or(got.len().min(new.len()));
                    fails.lock().unwrap().push(format!("C10: a reader of region 'a' created while the region was relocated returns {} bytes that are neither its old nor its new contents: byte {at} is {:#x}, the region holds {:#x}", got.len(), got.get(at).copied().unwrap_or(0), new.get(at).copied().unwrap_or(0)));
                }
            }
            _ => {}
        }
    })
}

fn b_script(w: &World, b: &str) -> Box<dyn FnOnce() + Send + 'static> {
    let db = w.db.clone();
    let expect = w.expect.clone();
    let fails = w.fails.clone();
    let b = b.to_string();
    Box::new(move || {
        let step = |id: &str, n: usize, tag: u8| {
            let d = bytes(n, tag);
            let r = match db.create_region_if_needed(id) { Ok(r) => r, Err(e) => { fails.lock().unwrap().push(format!("C10: B's create of '{id}' failed: {e:?}")); return; } };
            let mut v = expect.lock().unwrap().get(id).cloned().flatten().unwrap_or_default();
            v.extend_from_slice(&d);
            expect.lock().unwrap().insert(id.to_string(), Some(v.clone()));
            if let Err(e) = r.write(&d) { fails.lock().unwrap().push(format!("C10: B's write to '{id}' failed: {e:?}")); return; }
            // intermediate contents: exactly what this thread wrote
            verify(&db, id, &v, "B, right after its write", &fails);
        };
        match b.as_str() {
            "create_small" => { step("x", 100, 0xB0); }
            "create_write" => { step("x", 3000, 0xB1); step("x", 3000, 0xB2); }
            "grow_flush_create" => { step("y", 5000, 0xB3); if let Err(e) = db.flush() { fails.lock().unwrap().push(format!("C10: B's flush failed: {e:?}")); } step("z", 100, 0xB4); step("z", 6000, 0xB5); }
            "compact" => { if let Err(e) = db.compact() { fails.lock().unwrap().push(format!("C10: B's compact failed: {e:?}")); } }
            "relocate_a" => {
                // B appends to A's region (the one a reader is being created on): 'a' is not the last region, it relocates
                let d = bytes(5000, 0xA4);
                let mut v = expect.lock().unwrap().get("a").cloned().flatten().unwrap_or_default();
                v.extend_from_slice(&d);
                expect.lock().unwrap().insert("a".to_string(), Some(v));
                if let Err(e) = db.get_region("a").unwrap().write(&d) { fails.lock().unwrap().push(format!("C10: B's append to 'a' failed: {e:?}")); }
            }
            "flush_reuse" => { if let Err(e) = db.flush() { fails.lock().unwrap().push(format!("C10: B's flush failed: {e:?}")); } step("n", 4096, 0xEE); step("m", 4096, 0xED); step("o", 4096, 0xEC); step("p", 4096, 0xEB); }
            _ => {}
        }
    })
}

fn dump(db: &Database) -> String {
    let layout = db.layout();
    let regions = db.regions();
    let mut regs = vec![];
    for r in regions.index_to_region().iter().flatten() { let m = r.meta(); regs.push((m.start(), m.reserved())); }
    regs.sort();
    format!("R {} | H {} | P {} | V {} | F {}",
        pairs_str(regs.into_iter()), pairs_str(layout.start_to_hole().iter().map(|(a, b)| (*a, *b))),
        pairs_str(layout.pending_holes().iter().map(|(a, b)| (*a, *b))), pairs_str(layout.start_to_reserved().iter().map(|(a, b)| (*a, *b))), db.file_len())
}

/// one schedule; returns (request line with the layout dump, observation line, number of lock events of A)
pub fn schedule(ctl: &Arc<dsched::Ctl>, tmp: &std::path::Path, a: &str, b: &str, hold: bool, k: u64) -> (String, String, Vec<String>) {
    let w = prepare(tmp, a);
    // a reader of A's region created before anything happens (only where the schedule cannot need file growth:
    // a held reader blocks it by design)
    let held: Option<(Reader, Vec<u8>)> = if hold {
        let _ = w.db.set_min_len(8 << 20);
        w.db.get_region("a").map(|r| { let rd = r.create_reader(); let v = rd.read_all().to_vec(); (rd, v) })
    } else { None };
    let out = dsched::run(ctl, k, a_op(&w, a), b_script(&w, b));
    let mut fails: Vec<String> = vec![];
    if let Some(who) = out.hung {
        return (format!("sched {k} | -"), format!("hung | L - | O fail:C10: {who} did not return within 20 s (A parked at {:?})", out.parked_at), out.trace.clone());
    }
    if out.subject_panicked { fails.push(format!("C10: A's operation `{a}` panicked (parked at {:?} while B ran `{b}`)", out.parked_at)); }
    if out.script_panicked { fails.push(format!("C10: B's script `{b}` panicked (A parked at {:?} in `{a}`)", out.parked_at)); }
    fails.extend(w.fails.lock().unwrap().drain(..));
    // final contents of every region, by owner
    let exp = w.expect.lock().unwrap().clone();
    if !out.subject_panicked && !out.script_panicked {
        for (id, v) in &exp {
            match v {
                Some(v) => verify(&w.db, id, v, if id.starts_with('a') { "A" } else { "B / untouched" }, &w.fails),
                None => if w.db.get_region(id).is_some() { w.fails.lock().unwrap().push(format!("C10: removed region '{id}' is still there")); },
            }
        }
        fails.extend(w.fails.lock().unwrap().drain(..));
        if let Some(m) = crate::rawdb_engine::c02_of(&w.db, &w.dir) { fails.push(format!("C10: extent invariant broken at quiescence: {m}")); }
    }
    if let Some((rd, old)) = &held {
        let now = rd.read_all();
        if now != &old[..] {
            let at = now.iter().zip(old.iter()).position(|(x, y)| x != y).unwrap_or(0);
            fails.push(format!("C10: a reader of region 'a' created before the schedule returns foreign bytes: byte {at} is {:#x}, the region held {:#x}", now[at], old[at]));
        }
    }
    // when B had to wait for a lock A holds, A was released and both ran concurrently: the failure then is a race of
    // the two operations, not something A's parking point alone explains — say so in the message
    if out.script_waited { for f in fails.iter_mut() { f.push_str(" [B had to wait: A and B ran concurrently]"); } }
    let d = if out.subject_panicked || out.script_panicked { "-".to_string() } else { dump(&w.db) };
    drop(held);
    let o = if fails.is_empty() { "ok".to_string() } else { fails.truncate(3); format!("fail:{}", fails.join("; ")) };
    (format!("sched {k} | {d}"), format!("{} w={} | L {} | O {o}", out.parked_at.clone().unwrap_or("-".into()), out.script_waited as u8, if d == "-" { "-" } else { "ok" }), out.trace.clone())
}

pub fn pairs() -> Vec<(String, String, bool)> {
    let mut v = vec![];
    for a in A_OPS { for b in B_SCRIPTS {
        if *b == "flush_reuse" { continue; }
        v.push((a.to_string(), b.to_string(), false));
    } }
    // reader held across the schedule: operations on an existing region 'a' that need no file growth
    for a in ["write_fits", "write_into_hole", "write_relocate_hole", "truncate", "remove", "rename"] { v.push((a.to_string(), "flush_reuse".to_string(), true)); }
    v.push((READER_PAIR.0.to_string(), READER_PAIR.1.to_string(), false));
    v
}

/// `harness c10 gen|run …`
pub fn main(args: &Args) -> i32 {
    quiet_panics();
    let tmp = PathBuf::from(args.get("--tmp").unwrap_or("/verif/.cache/tmp"));
    std::fs::create_dir_all(&tmp).unwrap();
    let ctl = dsched::Ctl::install();
    match args.0.get(1).map(|s| s.as_str()).unwrap_or("") {
        "gen" => {
            // `--only <word>`: the pairs in which thread A's operation or thread B's script is <word> (C12 uses `compact`)
            let all: Vec<(String, String, bool)> = match args.get("--only") {
                Some(w) => pairs().into_iter().filter(|(a, b, _)| a == w || b == w).collect(),
                None => pairs(),
            };
            let cases = args.num("--cases", 1) as usize;
            let first = args.num("--first-case", 0) as usize;
            let stride = args.num("--len", 1).max(1);       // every `stride`-th pause point (1 = all)
            let mut ops_out = std::io::BufWriter::new(std::fs::File::create(args.get("--ops").unwrap()).unwrap());
            let mut impl_out = std::io::BufWriter::new(std::fs::File::create(args.get("--out").unwrap()).unwrap());
            for c in first..first + cases {
                let Some((a, b, hold)) = all.get(c % all.len()) else { continue };
                let head = format!("case {c} a={a} b={b} hold={}", *hold as u8);
                writeln!(ops_out, "{head}").unwrap();
                writeln!(impl_out, "{head}").unwrap();
                let (l0, o0, n) = schedule(&ctl, &tmp, a, b, *hold, 0);
                writeln!(ops_out, "{l0}").unwrap();
                writeln!(impl_out, "{o0}").unwrap();
                // every `stride`-th event, plus every point at which the subject is about to take a write lock or has just
                // finished copying data (the windows between two of its effects)
                let off = 1 + args.num("--seed", 1) % stride;
                let ks: Vec<u64> = (1..=n.len() as u64).filter(|k| (*k >= off && (*k - off) % stride == 0) || n[*k as usize - 1].starts_with("req:W:") || n[*k as usize - 1] == "rel:R:MmapMut").collect();
                for k in ks {
                    let (l, o, _) = schedule(&ctl, &tmp, a, b, *hold, k);
                    writeln!(ops_out, "{l}").unwrap();
                    writeln!(impl_out, "{o}").unwrap();
                }
            }
            0
        }
        "run" => {
            let path = args.get("--ops").unwrap();
            let text = std::fs::read_to_string(path).unwrap();
            let mut cur: Option<(String, String, bool)> = None;
            let mut rewritten = vec![];
            for l in text.lines() {
                let ws: Vec<&str> = l.split_whitespace().collect();
                if ws.first() == Some(&"case") {
                    let kv = |k: &str| ws.iter().find_map(|w| w.strip_prefix(&format!("{k}="))).unwrap_or("").to_string();
                    cur = Some((kv("a"), kv("b"), kv("hold") == "1"));
                    println!("{l}");
                    rewritten.push(l.to_string());
                } else if ws.first() == Some(&"sched") {
                    let (a, b, hold) = cur.clone().unwrap_or(("write_fits".into(), "create_write".into(), false));
                    let (l2, o, _) = schedule(&ctl, &tmp, &a, &b, hold, ws[1].parse().unwrap_or(0));
                    println!("{o}");
                    rewritten.push(l2);
                } else { println!("bad-op"); rewritten.push(l.to_string()); }
            }
            std::fs::write(path, rewritten.join("\n") + "\n").unwrap();
            0
        }
        _ => { eprintln!("usage: harness c10 gen|run …"); 2 }
    }
}
