//! openlock (C18): histories of opens (kept, or dropped at once; from another thread or from a child
//! process), references that keep the holder alive (clone, reader, region-derived database, background
//! task), drops and flushed writes on ONE directory, against the real rawdb.
//!   open <min_len>            an opener on a fresh thread that keeps the Database if it gets one
//!   probe thread|child <min>  an opener that drops it again at once
//!   ref clone|reader|regiondb extend the holder's lifetime
//!   bg                        background task of the holder (joined by the last drop: checked — none may outlive it)
//!   drop <k>                  drop the k-th (mod n) live reference
//!   touch <v>                 the holder writes v into region "r" and flushes
//! answer: `<opened:v | refused | ok | na> | D <data file length> | O <oracle>`
//! Oracle (model-free): an attempt made while a reference is alive must fail with Error::TryLock and
//! leave both files byte-identical; an attempt with no reference alive must succeed and read the last
//! flushed value.

use std::{
    io::Write as _,
    panic::{AssertUnwindSafe, catch_unwind},
    path::{Path, PathBuf},
    time::Duration,
};

use rawdb::{Database, Error, Reader, Region};

use crate::common::*;

#[allow(dead_code)]
enum Holder { Db(Database), Reader(Reader) }

enum Attempt { Opened(Database, u64), Refused, Other(String) }

fn read_value(db: &Database) -> u64 {
    match db.get_region("r") {
        Some(r) => {
            let rd = r.create_reader();
            if rd.len() >= 8 { u64::from_le_bytes(rd.read(0, 8).try_into().unwrap()) } else { 0 }
        }
        None => 0,
    }
}

fn attempt(path: &Path, min_len: usize) -> Attempt {
    let r = if min_len == 0 { Database::open(path) } else { Database::open_with_min_len(path, min_len) };
    match r {
        Ok(db) => { let v = read_value(&db); Attempt::Opened(db, v) }
        Err(Error::TryLock(_)) => Attempt::Refused,
        Err(e) => Attempt::Other(format!("{e:?}").chars().take(80).collect()),
    }
}

fn snapshot(path: &Path) -> Vec<(String, u64, u64)> {
    let mut v = vec![];
    if let Ok(rd) = std::fs::read_dir(path) {
        for e in rd.flatten() {
            let bytes = std::fs::read(e.path()).unwrap_or_default();
            v.push((e.file_name().to_string_lossy().to_string(), bytes.len() as u64, fnv(&bytes)));
        }
    }
    v.sort();
    v
}

fn data_len(path: &Path) -> u64 {
    std::fs::metadata(path.join("data")).map(|m| m.len()).unwrap_or(0)
}

pub struct Case { _dir: tempfile::TempDir, path: PathBuf, holders: Vec<Holder>, region: Option<Region>, flushed: u64,
    /// background tasks of the current instance that have not finished yet / how many were started on it
    bg_running: std::sync::Arc<std::sync::atomic::AtomicUsize>, bg_started: u64 }

impl Case {
    pub fn new(tmp: &Path) -> Self {
        let dir = tempfile::tempdir_in(tmp).unwrap();
        let path = dir.path().join("db");
        Case { _dir: dir, path, holders: vec![], region: None, flushed: 0, bg_running: Default::default(), bg_started: 0 }
    }

    fn some_db(&self) -> Option<Database> {
        for h in &self.holders { if let Holder::Db(d) = h { return Some(d.clone()); } }
        if self.holders.is_empty() { None } else { self.region.as_ref().map(|r| r.db()) }
    }

    fn try_open(&mut self, how: &str, min_len: usize, keep: bool) -> (String, Vec<String>) {
        let mut fails = vec![];
        let before = snapshot(&self.path);
        let held = !self.holders.is_empty();
        // the attempt: on another thread, or in a child process re-executing this binary
        let (res, db): (String, Option<(Database, u64)>) = if how == "child" {
            let out = std::process::Command::new(std::env::current_exe().unwrap())
                .args(["openlock", "child", self.path.to_str().unwrap(), &min_len.to_string()])
                .output().unwrap();
            (String::from_utf8_lossy(&out.stdout).trim().to_string(), None)
        } else {
            let p = self.path.clone();
            match std::thread::spawn(move || attempt(&p, min_len)).join() {
                Ok(Attempt::Opened(db, v)) => (format!("opened:{v}"), Some((db, v))),
                Ok(Attempt::Refused) => ("refused".into(), None),
                Ok(Attempt::Other(e)) => (format!("other:{e}"), None),
                Err(_) => ("panic".into(), None),
            }
        };
        if held {
            if res.starts_with("opened") { fails.push(format!("C18: a second open ({how}, min_len {min_len}) succeeded while the first instance is alive")); }
            else if res != "refused" { fails.push(format!("C18: the second open failed with {res} instead of the lock error")); }
            let after = snapshot(&self.path);
            if after != before {
                let d: Vec<String> = before.iter().zip(after.iter()).filter(|(a, b)| a != b).map(|(a, b)| format!("{} len {}->{}", a.0, a.1, b.1)).collect();
                fails.push(format!("C18: a refused open ({how}, min_len {min_len}) changed the files: {}", if d.is_empty() { "file set differs".to_string() } else { d.join(", ") }));
            }
        } else {
            match res.strip_prefix("opened:").and_then(|v| v.parse::<u64>().ok()) {
                Some(v) => { if v != self.flushed { fails.push(format!("C18: reopen sees {v} instead of the flushed {}", self.flushed)); } }
                None => fails.push(format!("C18: open refused although no reference to a previous instance is alive: {res}")),
            }
        }
        if let Some((db, _)) = db {
            if keep && !held {
                self.region = db.get_region("r");
                self.holders.push(Holder::Db(db));
            } else if held {
                // keep the intruder away from the holder's files: drop it
                drop(db);
            }
        }
        (res, fails)
    }

    pub fn exec(&mut self, line: &str) -> String {
        let ws: Vec<&str> = line.split_whitespace().collect();
        let r = catch_unwind(AssertUnwindSafe(|| -> (String, Vec<String>) {
            match ws.as_slice() {
                ["open", m] => self.try_open("thread", m.parse().unwrap(), true),
                ["probe", how, m] => self.try_open(how, m.parse().unwrap(), false),
                ["ref", kind] => {
                    let Some(db) = self.some_db() else { return ("na".into(), vec![]) };
                    match (*kind, self.region.clone()) {
                        ("reader", Some(r)) => { drop(db); self.holders.push(Holder::Reader(r.create_reader())); }
                        ("regiondb", Some(r)) => { drop(db); self.holders.push(Holder::Db(r.db())); }
                        _ => self.holders.push(Holder::Db(db)),
                    }
                    ("ok".into(), vec![])
                }
                ["bg"] => {
                    let Some(db) = self.some_db() else { return ("na".into(), vec![]) };
                    // earlier tasks run longer than later ones: if the last drop joined only some of them, one is still running
                    let extra = 300u64.saturating_sub(100 * self.bg_started).max(50);
                    self.bg_started += 1;
                    let running = self.bg_running.clone();
                    running.fetch_add(1, std::sync::atomic::Ordering::SeqCst);
                    db.run_bg(move |db| {
                        db.bg_sleep(Duration::from_millis(300));
                        std::thread::sleep(Duration::from_millis(extra));
                        let r = db.flush();
                        running.fetch_sub(1, std::sync::atomic::Ordering::SeqCst);
                        r?;
                        Ok(())
                    });
                    ("ok".into(), vec![])
                }
                ["drop", k] => {
                    if self.holders.is_empty() { return ("na".into(), vec![]); }
                    let k = k.parse::<usize>().unwrap() % self.holders.len();
                    drop(self.holders.remove(k));
                    let mut fails = vec![];
                    if self.holders.is_empty() {
                        // the instance is gone and its lock released: every background task must have been joined
                        let n = self.bg_running.load(std::sync::atomic::Ordering::SeqCst);
                        if n != 0 { fails.push(format!("C18: the last reference was dropped (lock released) while {n} background task(s) of the instance were still running")); }
                        self.bg_running = Default::default();
                        self.bg_started = 0;
                    }
                    ("ok".into(), fails)
                }
                ["touch", v] => {
                    let Some(db) = self.some_db() else { return ("na".into(), vec![]) };
                    let v: u64 = v.parse().unwrap();
                    let r = db.create_region_if_needed("r").unwrap();
                    r.truncate_write(0, &v.to_le_bytes()).unwrap();
                    db.flush().unwrap();
                    self.region = Some(r);
                    self.flushed = v;
                    ("ok".into(), vec![])
                }
                _ => ("bad-op".into(), vec![]),
            }
        }));
        match r {
            Ok((res, fails)) => {
                let o = if fails.is_empty() { "ok".to_string() } else { format!("fail:{}", fails.join("; ")) };
                format!("{res} | D {} | O {o}", data_len(&self.path))
            }
            Err(_) => "panic | D 0 | O fail:panic".into(),
        }
    }
}

/// min_len relative to the current size of the data file: absent, below, equal, above
fn pick_min(r: &mut Rng, cur: usize) -> usize {
    match r.weighted(&[30, 20, 6, 44]) {
        0 => 0,
        1 => if cur == 0 { 0 } else { 1 + r.below(cur as u64) as usize },
        2 => cur,
        _ => if cur > (12 << 20) { cur + 1 } else { cur + match r.below(4) { 0 => 1, 1 => 4096, 2 => r.range(2, 64) as usize * 4096, _ => r.range(1, 3 << 20) as usize } },
    }
}

pub fn gen_line(r: &mut Rng, holders: usize, cur: usize) -> String {
    // weights depend on whether somebody holds the directory
    let ws: &[u32] = if holders == 0 { &[40, 10, 10, 2, 2, 2, 2] } else { &[12, 22, 22, 18, 4, 14, 12] };
    match r.weighted(ws) {
        0 => format!("open {}", pick_min(r, cur)),
        1 => format!("probe thread {}", pick_min(r, cur)),
        2 => format!("probe child {}", pick_min(r, cur)),
        3 => format!("ref {}", r.pick(&["clone", "reader", "regiondb"])),
        4 => "bg".to_string(),
        5 => format!("drop {}", r.below(8)),
        _ => format!("touch {}", 1 + r.below(1 << 40)),
    }
}

/// `harness openlock gen|run|child …`
pub fn main(args: &Args) -> i32 {
    quiet_panics();
    match args.0.get(1).map(|s| s.as_str()).unwrap_or("") {
        "child" => {
            let path = PathBuf::from(&args.0[2]);
            let min_len: usize = args.0[3].parse().unwrap();
            match attempt(&path, min_len) {
                Attempt::Opened(db, v) => { drop(db); println!("opened:{v}"); }
                Attempt::Refused => println!("refused"),
                Attempt::Other(e) => println!("other:{e}"),
            }
            0
        }
        "gen" => {
            let tmp = PathBuf::from(args.get("--tmp").unwrap_or("/verif/.cache/tmp"));
            std::fs::create_dir_all(&tmp).unwrap();
            let seed = args.num("--seed", 1);
            let cases = args.num("--cases", 1);
            let first = args.num("--first-case", 0);
            let len = args.num("--len", 30);
            let mut ops_out = std::io::BufWriter::new(std::fs::File::create(args.get("--ops").unwrap()).unwrap());
            let mut impl_out = std::io::BufWriter::new(std::fs::File::create(args.get("--out").unwrap()).unwrap());
            for c in first..first + cases {
                let mut r = Rng::new(seed.wrapping_mul(1_000_003).wrapping_add(c).wrapping_add(0x18));
                let mut case = Case::new(&tmp);
                writeln!(ops_out, "case {c}").unwrap();
                writeln!(impl_out, "case {c}").unwrap();
                for _ in 0..len {
                    let l = gen_line(&mut r, case.holders.len(), data_len(&case.path) as usize);
                    writeln!(ops_out, "{l}").unwrap();
                    writeln!(impl_out, "{}", case.exec(&l)).unwrap();
                }
            }
            0
        }
        "run" => {
            let tmp = PathBuf::from(args.get("--tmp").unwrap_or("/verif/.cache/tmp"));
            std::fs::create_dir_all(&tmp).unwrap();
            let text = std::fs::read_to_string(args.get("--ops").unwrap()).unwrap();
            let mut case = Case::new(&tmp);
            for l in text.lines() {
                if l.starts_with("case") { case = Case::new(&tmp); println!("{l}"); continue; }
                println!("{}", case.exec(l));
            }
            0
        }
        _ => { eprintln!("usage: harness openlock gen|run|child …"); 2 }
    }
}
