//! C20: recorder for the guarded access tap of rawdb/vecdb.  Every event is resolved against the
//! Reader it belongs to (start and length snapshot of the region, base address of the mapping);
//! after each request the engine asks which accesses left the owning region's valid data.

use std::{cell::RefCell, sync::Arc};

use rawdb::verif::{self, AccessEvent};

#[derive(Clone, Debug)]
pub enum Rec {
    /// bytes of the mapping: region start / length snapshot of the reader, absolute offset, length
    Map { start: usize, snap_len: usize, abs: usize, len: usize, how: &'static str },
    /// pointer dereference (address, length) with the reader context in force, if any
    Ptr { ctx: Option<(usize, usize, usize)>, addr: usize, len: usize },
    File { offset: usize, len: usize },
}

#[derive(Default)]
struct State { ctx: Option<(usize, usize, usize)>, recs: Vec<Rec>, events: u64 }

thread_local! { static ACC: RefCell<State> = RefCell::new(State::default()); }

pub fn install() {
    verif::set_access_tap(Some(Arc::new(|ev: &AccessEvent| {
        ACC.with(|a| {
            let mut a = a.borrow_mut();
            a.events += 1;
            match *ev {
                AccessEvent::Read { base, start, snap_len, offset, len } => {
                    a.ctx = Some((base, start, snap_len));
                    a.recs.push(Rec::Map { start, snap_len, abs: start + offset, len, how: "unchecked_read" });
                }
                AccessEvent::Prefixed { base, start, snap_len, offset } => {
                    a.ctx = Some((base, start, snap_len));
                    // the pointer itself must point into the region (or one past its end)
                    a.recs.push(Rec::Map { start, snap_len, abs: start + offset, len: 0, how: "prefixed" });
                }
                AccessEvent::Ptr { addr, len } => { let ctx = a.ctx; a.recs.push(Rec::Ptr { ctx, addr, len }); }
                AccessEvent::File { offset, len } => a.recs.push(Rec::File { offset, len }),
            }
        })
    })));
}

/// start of a request: forget the reader context (a mapping base is only valid within a request)
pub fn begin() {
    ACC.with(|a| { let mut a = a.borrow_mut(); a.ctx = None; a.recs.clear(); });
}

pub fn events() -> u64 { ACC.with(|a| a.borrow().events) }

/// accesses of this request that leave the valid data of the region they were made for.
/// `regions`: (name, start, current length) of the vector's regions; `file_len`: length of the mapping;
/// `read_only`: the request cannot have changed a region length, so the current length applies too.
pub fn violations(regions: &[(&str, usize, usize)], file_len: usize, read_only: bool) -> (Vec<String>, usize) {
    let recs = ACC.with(|a| std::mem::take(&mut a.borrow_mut().recs));
    let mut out = vec![];
    let mut checked = 0usize;
    let name_of = |start: usize| regions.iter().find(|r| r.1 == start).map(|r| r.0).unwrap_or("other");
    let limit = |start: usize, snap: usize| -> usize {
        match regions.iter().find(|r| r.1 == start) { Some(r) if read_only => snap.min(r.2), _ => snap }
    };
    for r in recs {
        match r {
            Rec::Map { start, snap_len, abs, len, how } => {
                checked += 1;
                let lim = limit(start, snap_len);
                if abs < start || abs + len > start + lim {
                    out.push(format!("{how} of bytes [{}, {}) of the {} region whose length is {lim}", abs - start.min(abs), abs - start.min(abs) + len, name_of(start)));
                }
            }
            Rec::Ptr { ctx: Some((base, start, snap_len)), addr, len } => {
                if len == 0 || addr < base || addr - base >= file_len { continue; } // not in the mapping: a heap buffer
                checked += 1;
                let abs = addr - base;
                let lim = limit(start, snap_len);
                if abs < start || abs + len > start + lim {
                    out.push(format!("pointer read of bytes [{}, {}) of the {} region whose length is {lim}", abs as i64 - start as i64, abs as i64 - start as i64 + len as i64, name_of(start)));
                }
            }
            Rec::Ptr { ctx: None, .. } => {}
            Rec::File { offset, len } => {
                checked += 1;
                let inside = regions.iter().any(|r| offset >= r.1 && offset + len <= r.1 + r.2);
                if !inside && len > 0 {
                    let r0 = regions.first().copied().unwrap_or(("data", 0, 0));
                    out.push(format!("file read of bytes [{}, {}) of the {} region whose length is {}", offset as i64 - r0.1 as i64, offset as i64 - r0.1 as i64 + len as i64, r0.0, r0.2));
                }
            }
        }
    }
    out.dedup();
    (out, checked)
}
