//! lazy_diff (C15): LazyVecFrom1/2/3, LazyDeltaVec<DeltaSub>, LazyDeltaVec<DeltaChange>, LazyAggVec<Sparse> over BytesVec sources.
//! Requests: `src k v,…` (replace source k: truncate + push + write; sources may grow after the lazy vector
//! was built), `map v,…` (window starts / first indexes), `len`, `range a b`, `one i`, `sorted i,…`.
//! Every read goes through ALL read APIs of the vector; they must agree with each other and with the
//! defining formula (model-free oracle); the canonical answer is compared with the Lean model.

use std::{
    io::Write as _,
    panic::{AssertUnwindSafe, catch_unwind},
    sync::{Arc, RwLock},
};

use rawdb::Database;
use vecdb::{
    AnyStoredVec, AnyVec, BytesVec, DeltaChange, DeltaSub, ImportableVec, LazyAggVec, LazyDeltaVec, LazyVecFrom1, LazyVecFrom2, LazyVecFrom3,
    PrintableIndex, ReadableCloneableVec, ReadableVec, Version, WritableVec,
};

use crate::common::*;

/// a second index type: a source keyed by it does NOT govern the length of a lazy vector keyed by `usize`
#[derive(Debug, Default, Clone, Copy, PartialEq, Eq, PartialOrd, Ord)]
pub struct Day(usize);
impl From<usize> for Day { fn from(v: usize) -> Self { Day(v) } }
impl From<Day> for usize { fn from(v: Day) -> Self { v.0 } }
impl std::ops::Add<usize> for Day { type Output = Day; fn add(self, rhs: usize) -> Day { Day(self.0 + rhs) } }
impl PrintableIndex for Day {
    fn to_string() -> &'static str { "day" }
    fn to_possible_strings() -> &'static [&'static str] { &["day"] }
}

enum Src {
    U(BytesVec<usize, u64>),
    D(BytesVec<Day, u64>),
}
impl Src {
    fn rewrite(&mut self, keep: usize, tail: &[u64]) {
        match self {
            Src::U(s) => { s.truncate_if_needed_at(keep).unwrap(); for x in tail { s.push(*x); } s.write().unwrap(); }
            Src::D(s) => { s.truncate_if_needed_at(keep).unwrap(); for x in tail { s.push(*x); } s.write().unwrap(); }
        }
    }
    fn u(&self) -> &BytesVec<usize, u64> { match self { Src::U(s) => s, _ => panic!("own-typed source expected") } }
    fn d(&self) -> &BytesVec<Day, u64> { match self { Src::D(s) => s, _ => panic!("foreign-typed source expected") } }
}

/// which sources of a mixed-index kind are keyed by the foreign index type
fn foreign_of(kind: &str) -> &'static [usize] {
    match kind { "from2m" => &[1], "from3a" => &[1], "from3b" => &[2], "from3c" => &[0], _ => &[] }
}
fn nsrc_of(kind: &str) -> usize { match kind { "from2" | "from2m" => 2, "from3" | "from3a" | "from3b" | "from3c" => 3, _ => 1 } }

enum Lz {
    F1(LazyVecFrom1<usize, u64, usize, u64>),
    F2(LazyVecFrom2<usize, u64, usize, u64, usize, u64>),
    F3(LazyVecFrom3<usize, u64, usize, u64, usize, u64, usize, u64>),
    /// mixed index types: only the sources keyed by `usize` govern the length
    F2m(LazyVecFrom2<usize, u64, usize, u64, Day, u64>),
    F3a(LazyVecFrom3<usize, u64, usize, u64, Day, u64, usize, u64>),
    F3b(LazyVecFrom3<usize, u64, usize, u64, usize, u64, Day, u64>),
    F3c(LazyVecFrom3<usize, u64, Day, u64, usize, u64, usize, u64>),
    Delta(LazyDeltaVec<usize, u64, u64, DeltaSub>),
    /// change since the window start: lookback = the start index itself; u32 source, f64 output (exact on small integers)
    Chg(LazyDeltaVec<usize, u32, f64, DeltaChange>),
    Agg(LazyAggVec<usize, Option<u64>, usize, usize, u64>),
}

pub struct Case {
    _dir: tempfile::TempDir,
    _db: Database,
    kind: String,
    src: Vec<Src>,
    src32: Option<BytesVec<usize, u32>>,
    vals: Vec<Vec<u64>>,
    mapping: Arc<RwLock<Arc<[usize]>>>,
    lz: Lz,
}

fn nats(v: &[u64]) -> String { if v.is_empty() { "-".into() } else { v.iter().map(|x| x.to_string()).collect::<Vec<_>>().join(",") } }
fn opts(v: &[Option<u64>]) -> String { if v.is_empty() { "-".into() } else { v.iter().map(|x| x.map(|y| y.to_string()).unwrap_or("_".into())).collect::<Vec<_>>().join(",") } }

impl Case {
    fn new(tmp: &std::path::Path, kind: &str) -> Self {
        let dir = tempfile::tempdir_in(tmp).unwrap();
        let db = Database::open(dir.path()).unwrap();
        let n = nsrc_of(kind);
        let src: Vec<Src> = (0..n).map(|k| if foreign_of(kind).contains(&k) {
            Src::D(BytesVec::forced_import(&db, &format!("s{k}"), Version::ONE).unwrap())
        } else {
            Src::U(BytesVec::forced_import(&db, &format!("s{k}"), Version::ONE).unwrap())
        }).collect();
        let mapping: Arc<RwLock<Arc<[usize]>>> = Arc::new(RwLock::new(Arc::from(Vec::<usize>::new())));
        let m2 = mapping.clone();
        let src32: Option<BytesVec<usize, u32>> = if kind == "chg" { Some(BytesVec::forced_import(&db, "s32", Version::ONE).unwrap()) } else { None };
        let lz = match kind {
            "chg" => Lz::Chg(LazyDeltaVec::new("l", Version::ONE, src32.as_ref().unwrap().read_only_boxed_clone(), Version::ONE, move || m2.read().unwrap().clone())),
            "from2" => Lz::F2(LazyVecFrom2::init("l", Version::ONE, src[0].u().read_only_boxed_clone(), src[1].u().read_only_boxed_clone(), |i, a, b| a + 3 * b + i as u64)),
            "from3" => Lz::F3(LazyVecFrom3::init("l", Version::ONE, src[0].u().read_only_boxed_clone(), src[1].u().read_only_boxed_clone(), src[2].u().read_only_boxed_clone(), |i, a, b, c| a + 3 * b + 5 * c + i as u64)),
            "from2m" => Lz::F2m(LazyVecFrom2::init("l", Version::ONE, src[0].u().read_only_boxed_clone(), src[1].d().read_only_boxed_clone(), |i, a, b| a + 3 * b + i as u64)),
            "from3a" => Lz::F3a(LazyVecFrom3::init("l", Version::ONE, src[0].u().read_only_boxed_clone(), src[1].d().read_only_boxed_clone(), src[2].u().read_only_boxed_clone(), |i, a, b, c| a + 3 * b + 5 * c + i as u64)),
            "from3b" => Lz::F3b(LazyVecFrom3::init("l", Version::ONE, src[0].u().read_only_boxed_clone(), src[1].u().read_only_boxed_clone(), src[2].d().read_only_boxed_clone(), |i, a, b, c| a + 3 * b + 5 * c + i as u64)),
            "from3c" => Lz::F3c(LazyVecFrom3::init("l", Version::ONE, src[0].d().read_only_boxed_clone(), src[1].u().read_only_boxed_clone(), src[2].u().read_only_boxed_clone(), |i, a, b, c| a + 3 * b + 5 * c + i as u64)),
            "delta" => Lz::Delta(LazyDeltaVec::new("l", Version::ONE, src[0].u().read_only_boxed_clone(), Version::ONE, move || m2.read().unwrap().clone())),
            "agg" => Lz::Agg(LazyAggVec::new("l", Version::ONE, Version::ONE, src[0].u().read_only_boxed_clone(), move || m2.read().unwrap().clone())),
            _ => Lz::F1(LazyVecFrom1::init("l", Version::ONE, src[0].u().read_only_boxed_clone(), |i, a| a * 2 + i as u64)),
        };
        Case { _dir: dir, _db: db, kind: kind.into(), vals: vec![vec![]; n], src, src32, mapping, lz }
    }

    fn set_src(&mut self, k: usize, v: Vec<u64>) {
        // keep the common prefix, rewrite the rest
        if let Some(s) = self.src32.as_mut() {
            let keep = self.vals[k].iter().zip(v.iter()).take_while(|(a, b)| a == b).count();
            s.truncate_if_needed_at(keep).unwrap();
            for x in &v[keep..] { s.push(*x as u32); }
            s.write().unwrap();
            self.vals[k] = v;
            return;
        }
        let keep = self.vals[k].iter().zip(v.iter()).take_while(|(a, b)| a == b).count();
        self.src[k].rewrite(keep, &v[keep..]);
        self.vals[k] = v;
    }

    /// defining formula (None = beyond the governing length)
    fn formula(&self, i: usize) -> Option<Option<u64>> {
        let m = self.mapping.read().unwrap().clone();
        match self.kind.as_str() {
            "delta" => {
                let s = &self.vals[0];
                if i >= s.len() || i >= m.len() { return None; }
                let start = m[i];
                let ago = if start == 0 { 0 } else { *s.get(start - 1)? };
                Some(Some(s[i].saturating_sub(ago)))
            }
            "chg" => {
                let s = &self.vals[0];
                if i >= s.len() || i >= m.len() { return None; }
                let ago = *s.get(m[i])?;
                Some(Some(s[i].saturating_sub(ago)))
            }
            "agg" => {
                let s = &self.vals[0];
                if i >= m.len() { return None; }
                let next = if i + 1 < m.len() { m[i + 1] } else { s.len() };
                if next == 0 || m[i] >= next { Some(None) } else { Some(s.get(next - 1).copied()) }
            }
            _ => {
                // the governing sources (own index type) give the length; the generator keeps the others at least as long
                let len = (0..self.vals.len()).filter(|k| !foreign_of(&self.kind).contains(k)).map(|k| self.vals[k].len()).min().unwrap_or(0);
                if i >= len { return None; }
                if self.vals.iter().any(|v| i >= v.len()) { return None; }
                let g = |k: usize| self.vals[k][i];
                Some(Some(match self.vals.len() { 1 => g(0) * 2 + i as u64, 2 => g(0) + 3 * g(1) + i as u64, _ => g(0) + 3 * g(1) + 5 * g(2) + i as u64 }))
            }
        }
    }

    fn all_range_paths<T: Clone + PartialEq + std::fmt::Debug + Send + Sync + 'static>(v: &(impl ReadableVec<usize, T> + Sized), a: usize, b: usize) -> Result<Vec<T>, String> {
        let main = v.collect_range_at(a, b);
        let mut p2 = vec![]; v.read_into_at(a, b, &mut p2);
        let mut p3 = vec![]; v.for_each_range_dyn_at(a, b, &mut |x| p3.push(x));
        let p4 = v.fold_range_at(a, b, vec![], |mut acc: Vec<T>, x| { acc.push(x); acc });
        let p5: Result<Vec<T>, ()> = v.try_fold_range_at(a, b, vec![], |mut acc: Vec<T>, x| { acc.push(x); Ok(acc) });
        let mut p6 = vec![]; v.for_each_range_at(a, b, |x| p6.push(x));
        for (name, p) in [("read_into_at", &p2), ("for_each_range_dyn_at", &p3), ("fold_range_at", &p4), ("try_fold_range_at", &p5.unwrap()), ("for_each_range_at", &p6)] {
            if *p != main { return Err(format!("C15: {name}({a},{b}) = {:?} but collect_range_at = {:?}", &p[..p.len().min(6)], &main[..main.len().min(6)])); }
        }
        Ok(main)
    }

    /// names the input condition under which a panic is the listed finding F7 / F8 (so that any OTHER panic is not
    /// mistaken for it): a first-index mapping that points beyond the source, a delta window that starts behind its index
    fn panic_context(&self) -> &'static str {
        let m = self.mapping.read().unwrap().clone();
        let n = self.vals[0].len();
        match self.kind.as_str() {
            "agg" if m.iter().any(|&x| x > n) => " [mapping beyond source]",
            "delta" if m.iter().enumerate().any(|(i, &s)| s > i) => " [empty window]",
            "chg" if m.iter().enumerate().any(|(i, &s)| s > i) => " [window starts after its index]",
            _ => "",
        }
    }

    fn exec(&mut self, line: &str) -> String {
        let ws: Vec<&str> = line.split_whitespace().collect();
        let list = |s: &str| -> Vec<u64> { if s == "-" { vec![] } else { s.split(',').filter_map(|x| x.parse().ok()).collect() } };
        let mut fails: Vec<String> = vec![];
        let out = match ws[0] {
            "src" => { self.set_src(ws[1].parse().unwrap(), list(ws[2])); "ok".to_string() }
            "map" => { *self.mapping.write().unwrap() = Arc::from(list(ws[1]).into_iter().map(|x| x as usize).collect::<Vec<_>>()); "ok".into() }
            "len" => {
                let n = match &self.lz { Lz::F1(v) => v.len(), Lz::F2(v) => v.len(), Lz::F3(v) => v.len(), Lz::F2m(v) => v.len(), Lz::F3a(v) => v.len(), Lz::F3b(v) => v.len(), Lz::F3c(v) => v.len(),
                    Lz::Delta(v) => v.len(), Lz::Chg(v) => v.len(), Lz::Agg(v) => v.len() };
                // oracle: the length is given by the governing sources (those keyed by the vector's own index type)
                if !matches!(self.kind.as_str(), "delta" | "chg" | "agg") {
                    let want = (0..self.vals.len()).filter(|k| !foreign_of(&self.kind).contains(k)).map(|k| self.vals[k].len()).min().unwrap_or(0);
                    if n != want { fails.push(format!("C15: len() = {n} but the governing sources give {want}")); }
                }
                format!("ok {n}")
            }
            "range" => {
                let (a, b): (usize, usize) = (ws[1].parse().unwrap(), ws[2].parse().unwrap());
                let r = catch_unwind(AssertUnwindSafe(|| -> Result<String, String> {
                    Ok(match &self.lz {
                        Lz::F1(v) => nats(&Self::all_range_paths(v, a, b)?),
                        Lz::F2(v) => nats(&Self::all_range_paths(v, a, b)?),
                        Lz::F3(v) => nats(&Self::all_range_paths(v, a, b)?),
                        Lz::F2m(v) => nats(&Self::all_range_paths(v, a, b)?),
                        Lz::F3a(v) => nats(&Self::all_range_paths(v, a, b)?),
                        Lz::F3b(v) => nats(&Self::all_range_paths(v, a, b)?),
                        Lz::F3c(v) => nats(&Self::all_range_paths(v, a, b)?),
                        Lz::Delta(v) => nats(&Self::all_range_paths(v, a, b)?),
                        Lz::Chg(v) => nats(&Self::all_range_paths(v, a, b)?.into_iter().map(|x| x as u64).collect::<Vec<_>>()),
                        Lz::Agg(v) => opts(&Self::all_range_paths(v, a, b)?),
                    })
                }));
                match r {
                    Ok(Ok(s)) => {
                        // oracle: the formula restricted to the range
                        let want: Vec<Option<u64>> = (a..b.max(a)).map_while(|i| self.formula(i)).collect();
                        let wants = if self.kind == "agg" { opts(&want) } else { nats(&want.iter().map(|x| x.unwrap_or(u64::MAX)).collect::<Vec<_>>()) };
                        if s != wants { fails.push(format!("C15: range({a},{b}) = {} but the formula gives {}", &s[..s.len().min(80)], &wants[..wants.len().min(80)])); }
                        format!("ok {s}")
                    }
                    Ok(Err(e)) => { fails.push(e); "ok ?".into() }
                    Err(_) => { fails.push(format!("C15: range({a},{b}) panics{}", self.panic_context())); "panic".into() }
                }
            }
            "one" => {
                let i: usize = ws[1].parse().unwrap();
                let r = catch_unwind(AssertUnwindSafe(|| match &self.lz {
                    Lz::F1(v) => v.collect_one_at(i).map(Some), Lz::F2(v) => v.collect_one_at(i).map(Some), Lz::F3(v) => v.collect_one_at(i).map(Some),
                    Lz::F2m(v) => v.collect_one_at(i).map(Some), Lz::F3a(v) => v.collect_one_at(i).map(Some), Lz::F3b(v) => v.collect_one_at(i).map(Some), Lz::F3c(v) => v.collect_one_at(i).map(Some),
                    Lz::Delta(v) => v.collect_one_at(i).map(Some), Lz::Chg(v) => v.collect_one_at(i).map(|x| Some(x as u64)), Lz::Agg(v) => v.collect_one_at(i),
                }));
                match r {
                    Ok(got) => {
                        let want = self.formula(i);
                        if got != want { fails.push(format!("C15: collect_one_at({i}) = {got:?} but the formula gives {want:?}")); }
                        match got {
                            None => if self.kind == "agg" { "ok none".into() } else { "ok _".to_string() },
                            Some(None) => "ok _".into(),
                            Some(Some(v)) => format!("ok {v}"),
                        }
                    }
                    Err(_) => { fails.push(format!("C15: collect_one_at({i}) panics{}", self.panic_context())); "panic".into() }
                }
            }
            "sorted" => {
                let idx: Vec<usize> = list(ws[1]).into_iter().map(|x| x as usize).collect();
                let r = catch_unwind(AssertUnwindSafe(|| match &self.lz {
                    Lz::F1(v) => Some(v.read_sorted_at(&idx)), Lz::F2(v) => Some(v.read_sorted_at(&idx)), Lz::F3(v) => Some(v.read_sorted_at(&idx)),
                    Lz::F2m(v) => Some(v.read_sorted_at(&idx)), Lz::F3a(v) => Some(v.read_sorted_at(&idx)), Lz::F3b(v) => Some(v.read_sorted_at(&idx)), Lz::F3c(v) => Some(v.read_sorted_at(&idx)),
                    Lz::Delta(v) => Some(v.read_sorted_at(&idx)), Lz::Chg(v) => Some(v.read_sorted_at(&idx).into_iter().map(|x| x as u64).collect()), Lz::Agg(_) => None,
                }));
                match r {
                    Ok(Some(got)) => {
                        let want: Vec<u64> = idx.iter().filter_map(|&i| self.formula(i).flatten()).collect();
                        if got != want { fails.push(format!("C15: read_sorted_at({:?}) = {:?} but the formula gives {:?}", &idx[..idx.len().min(8)], &got[..got.len().min(8)], &want[..want.len().min(8)])); }
                        format!("ok {}", nats(&got))
                    }
                    Ok(None) => "unmodelled".into(),
                    Err(_) => { fails.push(format!("C15: read_sorted_at panics{}", self.panic_context())); "panic".into() }
                }
            }
            _ => "bad-op".into(),
        };
        let o = if fails.is_empty() { "ok".to_string() } else { format!("fail:{}", fails.join("; ")) };
        format!("{out} | O {o}")
    }
}

fn gen_case(seed: u64, c: u64, len: u64, open: bool) -> Vec<String> {
    let mut r = Rng::new(seed.wrapping_mul(1_000_003).wrapping_add(c).wrapping_mul(13));
    // the change operator only in the clean stream (a window that starts after its index is outside its domain: `h - start`)
    let kind = if open { ["from1", "from2", "from3", "delta", "agg"][(c % 5) as usize] }
        else { ["from1", "from2", "from3", "delta", "agg", "chg", "from2m", "from3a", "from3b", "from3c"][(c % 10) as usize] };
    let nsrc = nsrc_of(kind);
    let mut lines = vec![format!("case {c} kind={kind}")];
    let mut vals: Vec<Vec<u64>> = vec![vec![]; nsrc];
    let mut maplen = 0usize;
    let n_ops = len / 2 + r.below(len + 1);
    let fmt = |v: &Vec<u64>| if v.is_empty() { "-".to_string() } else { v.iter().map(|x| x.to_string()).collect::<Vec<_>>().join(",") };
    for step in 0..n_ops {
        let n0 = vals[0].len();
        if step == 0 || r.chance(1, 5) {
            // grow (or rewrite) a source; delta sources are non-decreasing so that differences are exact
            let k = r.below(nsrc as u64) as usize;
            let keep = if r.chance(1, 4) { r.below(vals[k].len() as u64 + 1) as usize } else { vals[k].len() };
            vals[k].truncate(keep);
            for _ in 0..1 + r.below(12) {
                let prev = vals[k].last().copied().unwrap_or(0);
                vals[k].push(if kind == "delta" || kind == "chg" { prev + r.below(9) } else { r.below(100) });
            }
            lines.push(format!("src {k} {}", fmt(&vals[k])));
            // mixed index types: a source keyed by the foreign type does not govern; it is kept at least as long as the others
            for &f in foreign_of(kind) {
                let need = (0..nsrc).filter(|g| !foreign_of(kind).contains(g)).map(|g| vals[g].len()).max().unwrap_or(0);
                if vals[f].len() < need {
                    while vals[f].len() < need + r.below(3) as usize { vals[f].push(r.below(100)); }
                    while vals[f].len() < need { vals[f].push(r.below(100)); }
                    lines.push(format!("src {f} {}", fmt(&vals[f])));
                }
            }
            // clean stream: the mapping is rebuilt for the new source length before the next read
            if !open { maplen = 0; }
            continue;
        }
        if (kind == "delta" || kind == "chg" || kind == "agg") && (maplen == 0 || r.chance(1, 6)) {
            let m: Vec<u64> = if kind == "delta" || kind == "chg" {
                // monotone window starts, start ≤ index (open stream: empty windows start = index + 1, starts beyond the source)
                let ln = match r.below(4) { 0 => n0.saturating_sub(2), 1 => n0 + 3, _ => n0 };
                let mut prev = 0u64;
                (0..ln).map(|i| { let lo = prev; let hi = if open && r.chance(1, 6) { i as u64 + 1 } else { i as u64 }; let s = if hi <= lo { hi.max(lo).min(i as u64 + if open { 1 } else { 0 }) } else { lo + r.below(hi - lo + 1) }; prev = s.max(prev); prev }).collect()
            } else {
                // first indexes: monotone, groups of 0..3 elements, ends at or (open stream) beyond the source
                let mut cur = 0u64; let mut v = vec![];
                let limit = if open && r.chance(1, 3) { n0 as u64 + 4 } else { n0 as u64 };
                while cur <= limit && v.len() < 30 { v.push(cur); cur += r.below(4); if r.chance(1, 12) { break; } }
                if !open { v.retain(|&x| x <= n0 as u64); }
                v
            };
            maplen = m.len();
            lines.push(format!("map {}", fmt(&m)));
            continue;
        }
        let len_hint = n0.max(maplen) + 2;
        match r.weighted(&[40, 25, 20, 5]) {
            0 => {
                let pick = |r: &mut Rng| match r.below(7) { 0 => 0, 1 => n0, 2 => n0 + 1, 3 => n0.saturating_sub(1), 4 => usize::MAX >> 1, _ => r.below(len_hint as u64) as usize };
                let (a, b) = (pick(&mut r), pick(&mut r));
                lines.push(format!("range {a} {b}"));
            }
            1 => lines.push(format!("one {}", match r.below(5) { 0 => 0, 1 => n0, 2 => n0.saturating_sub(1), _ => r.below(len_hint as u64) as usize })),
            2 => {
                let mut idx: Vec<u64> = (0..r.below(8)).map(|_| r.below(len_hint as u64 + 2)).collect();
                idx.sort();
                if kind != "agg" { lines.push(format!("sorted {}", fmt(&idx))); } else { lines.push("len".into()); }
            }
            _ => lines.push("len".into()),
        }
    }
    lines
}

fn run_lines(tmp: &std::path::Path, lines: &[String]) -> Vec<String> {
    let mut out = vec![];
    let mut case: Option<Case> = None;
    for l in lines {
        if l.starts_with("case") {
            let kind = l.split_whitespace().find_map(|w| w.strip_prefix("kind=")).unwrap_or("from1");
            case = Some(Case::new(tmp, kind));
            out.push(l.clone());
        } else if let Some(c) = case.as_mut() {
            out.push(c.exec(l));
        } else { out.push("skipped".into()); }
    }
    out
}

/// `harness lazy gen|run …`
pub fn main(args: &Args) -> i32 {
    quiet_panics();
    let tmp = std::path::PathBuf::from(args.get("--tmp").unwrap_or("/verif/.cache/tmp"));
    std::fs::create_dir_all(&tmp).unwrap();
    match args.0.get(1).map(|s| s.as_str()).unwrap_or("") {
        "gen" => {
            let (seed, cases, first, len) = (args.num("--seed", 1), args.num("--cases", 10), args.num("--first-case", 0), args.num("--len", 40));
            let open = args.flag("--open");
            let mut ops_out = std::io::BufWriter::new(std::fs::File::create(args.get("--ops").unwrap()).unwrap());
            let mut impl_out = std::io::BufWriter::new(std::fs::File::create(args.get("--out").unwrap()).unwrap());
            for c in first..first + cases {
                let lines = gen_case(seed, c, len, open);
                let obs = run_lines(&tmp, &lines);
                for (l, o) in lines.iter().zip(obs.iter()) { writeln!(ops_out, "{l}").unwrap(); writeln!(impl_out, "{o}").unwrap(); }
            }
            0
        }
        "run" => {
            let text = std::fs::read_to_string(args.get("--ops").unwrap()).unwrap();
            let lines: Vec<String> = text.lines().map(|s| s.to_string()).collect();
            for o in run_lines(&tmp, &lines) { println!("{o}"); }
            0
        }
        _ => { eprintln!("usage: harness lazy gen|run …"); 2 }
    }
}
