//! crash_sim (C05, C12): a rawdb history is executed with the durability tap on; every effect on the two
//! files (stores through the mappings with payload, length changes, syncs, hole punches) is recorded.
//! After the first completed flush, at EVERY later event boundary (= crash point) crash images are built:
//!   * sync-only            — each file as of its last sync (plus length changes, which are durable in order)
//!   * everything written   — the volatile contents
//!   * single-page deviations from either (each page dirtied since its file's last sync, alone)
//!   * N random per-page mixtures of "any version the page had since the last sync"
//! and the REAL `Database::open` is run on every image.  Oracles (model-free):
//!   C05  open succeeds; recovered extents are page-aligned, pairwise disjoint and inside the file;
//!        every region flushed before and not named by any later request has exactly its flushed
//!        name, length and bytes;
//!   C12  across `compact` no live region's bytes/length/placement change, the file length is unchanged,
//!        and every punched range lies in a free extent or in the unused tail of a region's reserve.
//! The canonical per-request line (request outcome + event list) is compared with the Lean model's
//! event stream by the driver (`rawdb` protocol), so a reordered or dropped sync is a correspondence
//! failure even if no sampled image exposes it.

use std::{
    collections::{BTreeMap, BTreeSet},
    io::Write as _,
    panic::{AssertUnwindSafe, catch_unwind},
    sync::atomic::Ordering,
};

use rawdb::{Database, verif::{FileId, IoEvent}};

use crate::{common::*, rawdb_engine::{FULL_EVENTS, FULL_ON, Gen, RawEngine}};

const PAGE: usize = 4096;

/// one file: contents as of its last sync (+ length changes), current contents, and every version
/// each page has had since the last sync
#[derive(Clone, Default)]
struct FileImg {
    durable: Vec<u8>,
    volatile: Vec<u8>,
    versions: BTreeMap<usize, Vec<Vec<u8>>>,
}

impl FileImg {
    fn set_len(&mut self, n: usize) {
        self.durable.resize(n, 0);
        self.volatile.resize(n, 0);
    }
    fn page_of(v: &[u8], p: usize) -> Vec<u8> {
        let mut out = vec![0u8; PAGE];
        let a = p * PAGE;
        if a < v.len() { let b = (a + PAGE).min(v.len()); out[..b - a].copy_from_slice(&v[a..b]); }
        out
    }
    fn write(&mut self, off: usize, data: &[u8]) {
        if data.is_empty() { return; }
        if off + data.len() > self.volatile.len() { self.set_len(off + data.len()); }
        self.volatile[off..off + data.len()].copy_from_slice(data);
        for p in off / PAGE..=(off + data.len() - 1) / PAGE {
            let pg = Self::page_of(&self.volatile, p);
            self.versions.entry(p).or_default().push(pg);
        }
    }
    fn sync(&mut self) {
        self.durable = self.volatile.clone();
        self.versions.clear();
    }
    fn image(&self, choice: &dyn Fn(usize, &Vec<Vec<u8>>) -> Option<usize>) -> Vec<u8> {
        // None = durable version, Some(k) = k-th version since the last sync
        let mut img = self.durable.clone();
        for (p, vs) in &self.versions {
            if let Some(k) = choice(*p, vs) {
                let a = p * PAGE;
                if a < img.len() { let b = (a + PAGE).min(img.len()); img[a..b].copy_from_slice(&vs[k][..b - a]); }
            }
        }
        img
    }
}

#[derive(Clone, Default)]
struct Disk { data: FileImg, regions: FileImg }

impl Disk {
    fn apply(&mut self, ev: &IoEvent) {
        match ev {
            IoEvent::Write { file, offset, data } => self.f(*file).write(*offset, data),
            IoEvent::SetLen { file, len } => self.f(*file).set_len(*len),
            IoEvent::Sync { file } => self.f(*file).sync(),
            IoEvent::Punch { offset, len } => { let z = vec![0u8; *len]; self.data.write(*offset, &z); }
            IoEvent::FlushAsync { .. } | IoEvent::FlushAsyncAll { .. } => {}
        }
    }
    fn f(&mut self, id: FileId) -> &mut FileImg { if id == FileId::Data { &mut self.data } else { &mut self.regions } }
}

struct Snap { name: Vec<u8>, len: usize, bytes: Vec<u8> }

/// run the real open on one crash image; returns failures
fn check_image(tmp: &std::path::Path, data: &[u8], regions: &[u8], flushed: &[Snap], what: &str, fails: &mut Vec<String>) {
    let dir = tempfile::tempdir_in(tmp).unwrap();
    std::fs::write(dir.path().join("data"), data).unwrap();
    std::fs::write(dir.path().join("regions"), regions).unwrap();
    let r = catch_unwind(AssertUnwindSafe(|| Database::open(dir.path())));
    let db = match r {
        Ok(Ok(db)) => db,
        Ok(Err(e)) => { fails.push(format!("C05: open fails on the crash image ({what}): {e:?}")); return; }
        Err(_) => { fails.push(format!("C05: open panics on the crash image ({what})")); return; }
    };
    let regs = db.regions();
    let mut extents: Vec<(usize, usize, String)> = vec![];
    for r in regs.index_to_region().iter().flatten() {
        let m = r.meta();
        extents.push((m.start(), m.reserved(), m.id().to_string()));
        if m.start() + m.reserved() > data.len() { fails.push(format!("C05: recovered region '{}' [{}, {}) lies outside the file of {} bytes ({what})", m.id(), m.start(), m.start() + m.reserved(), data.len())); }
    }
    extents.sort();
    for w in extents.windows(2) {
        if w[0].0 + w[0].1 > w[1].0 { fails.push(format!("C05: recovered regions '{}' [{}, {}) and '{}' [{}, {}) overlap ({what})", w[0].2, w[0].0, w[0].0 + w[0].1, w[1].2, w[1].0, w[1].0 + w[1].1)); }
    }
    drop(regs);
    for s in flushed {
        let id = String::from_utf8_lossy(&s.name).to_string();
        match db.get_region(&id) {
            None => fails.push(format!("C05: untouched flushed region '{}' is gone after the crash ({what})", hex(&s.name))),
            Some(r) => {
                let len = r.meta().len();
                if len != s.len { fails.push(format!("C05: untouched flushed region '{}' has length {len}, flushed {} ({what})", hex(&s.name), s.len)); }
                else {
                    let got = r.create_reader().read_all().to_vec();
                    if got != s.bytes {
                        let at = got.iter().zip(s.bytes.iter()).position(|(a, b)| a != b).unwrap_or(0);
                        fails.push(format!("C05: untouched flushed region '{}' differs at byte {at} after the crash ({what})", hex(&s.name)));
                    }
                }
            }
        }
    }
}

fn named_by(line: &str) -> Vec<Vec<u8>> {
    let ws: Vec<&str> = line.split_whitespace().collect();
    match ws.first().copied() {
        Some("write") | Some("write_at") | Some("truncate") | Some("truncate_write") | Some("remove") | Some("remove_held") | Some("region_flush") | Some("create") =>
            ws.get(1).and_then(|h| unhex(h)).into_iter().collect(),
        Some("rename") => ws[1..].iter().filter_map(|h| unhex(h)).collect(),
        _ => vec![],
    }
}

pub fn run_case(tmp: &std::path::Path, eng: &mut RawEngine, lines: &[String], mixes: u64, seed: u64) -> Vec<String> {
    let mut out = vec![];
    let mut disk = Disk::default();
    let mut flushed: Option<Vec<Snap>> = None;
    let mut touched: BTreeSet<Vec<u8>> = BTreeSet::new();
    let mut rng = Rng::new(seed ^ 0xC4A5);
    let mut images = 0u64;
    for line in lines {
        if line.starts_with("case") {
            FULL_ON.store(true, Ordering::SeqCst);
            FULL_EVENTS.lock().unwrap().clear();
            let o = eng.exec(line);
            // the files as `open` left them
            disk = Disk::default();
            for ev in FULL_EVENTS.lock().unwrap().drain(..) { disk.apply(&ev); }
            // whatever `open` did before the tap saw it: take the real files as the durable base
            if let Some(db) = eng.db.as_ref() {
                let p = db.path().to_path_buf();
                let d = std::fs::read(p.join("data")).unwrap_or_default();
                let r = std::fs::read(p.join("regions")).unwrap_or_default();
                disk.data.durable = d.clone(); disk.data.volatile = d; disk.data.versions.clear();
                disk.regions.durable = r.clone(); disk.regions.volatile = r; disk.regions.versions.clear();
            }
            flushed = None; touched.clear();
            out.push(o);
            continue;
        }
        // C12 bookkeeping before a compact
        let is_compact = line.trim() == "compact";
        let before: Vec<(Vec<u8>, usize, usize, Vec<u8>)> = if is_compact {
            eng.refdb.iter().map(|(k, v)| {
                let r = eng.db.as_ref().and_then(|d| d.get_region(&String::from_utf8_lossy(k)));
                let (st, rs) = r.map(|r| (r.meta().start(), r.meta().reserved())).unwrap_or((0, 0));
                (k.clone(), st, rs, v.0.clone())
            }).collect()
        } else { vec![] };
        let flen_before = eng.db.as_ref().map(|d| d.file_len()).unwrap_or(0);
        let free_before: Vec<(usize, usize)> = if is_compact {
            // free and about-to-be-freed extents, adjacent ones coalesced (promotion merges them)
            let mut v: Vec<(usize, usize)> = eng.db.as_ref().map(|d| { let l = d.layout(); l.start_to_hole().iter().map(|(a, b)| (*a, *b)).chain(l.pending_holes().iter().map(|(a, b)| (*a, *b))).collect() }).unwrap_or_default();
            v.sort();
            let mut m: Vec<(usize, usize)> = vec![];
            for (a, b) in v { match m.last_mut() { Some(l) if l.0 + l.1 >= a => { l.1 = l.1.max(a + b - l.0); } _ => m.push((a, b)) } }
            m
        } else { vec![] };

        FULL_EVENTS.lock().unwrap().clear();
        let obs = eng.exec(line);
        let evs: Vec<IoEvent> = FULL_EVENTS.lock().unwrap().drain(..).collect();
        let mut fails: Vec<String> = vec![];
        for n in named_by(line) { touched.insert(n); }
        if line.starts_with("retain") { for k in eng.refdb.keys() { let _ = k; } touched.extend(flushed.iter().flatten().map(|s| s.name.clone()).filter(|n| !eng.refdb.contains_key(n))); }

        // crash points: after each event of this request
        for (k, ev) in evs.iter().enumerate() {
            disk.apply(ev);
            if let Some(fl) = flushed.as_ref() {
                if fails.len() > 3 { continue; }
                let untouched: Vec<Snap> = fl.iter().filter(|s| !touched.contains(&s.name)).map(|s| Snap { name: s.name.clone(), len: s.len, bytes: s.bytes.clone() }).collect();
                let what = |s: &str| format!("{s} image after event {k} of `{}`", line.split_whitespace().next().unwrap_or(""));
                // sync-only and everything-written
                check_image(tmp, &disk.data.durable, &disk.regions.durable, &untouched, &what("sync-only"), &mut fails); images += 1;
                let all_d = disk.data.image(&|_, vs| Some(vs.len() - 1));
                let all_r = disk.regions.image(&|_, vs| Some(vs.len() - 1));
                check_image(tmp, &all_d, &all_r, &untouched, &what("all-written"), &mut fails); images += 1;
                // single-page deviations (metadata pages matter most: all of them; data pages: a sample)
                let rpages: Vec<usize> = disk.regions.versions.keys().copied().collect();
                for &p in &rpages {
                    let r1 = disk.regions.image(&|q, vs| if q == p { Some(vs.len() - 1) } else { None });
                    check_image(tmp, &all_d, &r1, &untouched, &what(&format!("only-metadata-page-{p}-written")), &mut fails); images += 1;
                    let r2 = disk.regions.image(&|q, vs| if q == p { None } else { Some(vs.len() - 1) });
                    check_image(tmp, &all_d, &r2, &untouched, &what(&format!("all-but-metadata-page-{p}")), &mut fails); images += 1;
                    check_image(tmp, &disk.data.durable, &r1, &untouched, &what(&format!("data-synced-only+metadata-page-{p}")), &mut fails); images += 1;
                }
                for _ in 0..mixes {
                    let s1 = rng.next(); let s2 = rng.next();
                    let d = disk.data.image(&|q, vs| { let m = crate::vec_engine::mix(s1 ^ q as u64); if m % 3 == 0 { None } else { Some((m / 3) as usize % vs.len()) } });
                    let r = disk.regions.image(&|q, vs| { let m = crate::vec_engine::mix(s2 ^ q as u64); if m % 3 == 0 { None } else { Some((m / 3) as usize % vs.len()) } });
                    check_image(tmp, &d, &r, &untouched, &what("random-mix"), &mut fails); images += 1;
                }
            }
        }
        // a completed flush / compact is the new reference point
        if (line.trim() == "flush" || is_compact) && obs.starts_with("ok") {
            flushed = Some(eng.refdb.iter().filter(|(_, v)| v.1).map(|(k, v)| Snap { name: k.clone(), len: v.0.len(), bytes: v.0.clone() }).collect());
            touched.clear();
        }
        if line.starts_with("reopen") { flushed = None; }
        // C12
        if is_compact && obs.starts_with("ok") {
            if let Some(db) = eng.db.as_ref() {
                if db.file_len() != flen_before { fails.push(format!("C12: compact changed the file length {flen_before} -> {}", db.file_len())); }
                for (name, st, rs, bytes) in &before {
                    match db.get_region(&String::from_utf8_lossy(name)) {
                        None => fails.push(format!("C12: region '{}' vanished across compact", hex(name))),
                        Some(r) => {
                            let m = r.meta();
                            if m.start() != *st || m.reserved() != *rs { fails.push(format!("C12: compact moved region '{}'", hex(name))); }
                            let l = m.len(); drop(m);
                            let got = r.create_reader().read_all().to_vec();
                            if l != bytes.len() || got != *bytes { fails.push(format!("C12: compact altered the bytes of live region '{}'", hex(name))); }
                        }
                    }
                }
                for ev in &evs {
                    if let IoEvent::Punch { offset, len } = ev {
                        let in_free = free_before.iter().any(|(a, b)| *a <= *offset && offset + len <= a + b);
                        let in_tail = before.iter().any(|(_, st, rs, bytes)| { let used = bytes.len().div_ceil(PAGE) * PAGE; *offset >= st + used && offset + len <= st + rs });
                        if !in_free && !in_tail { fails.push(format!("C12: compact punched [{offset}, {}) which is neither a free extent nor the unused tail of a reserve", offset + len)); }
                    }
                }
            }
        }
        let body = obs.split(" | O ").next().unwrap_or(&obs).to_string();
        let prev_o = obs.split(" | O ").nth(1).unwrap_or("ok").to_string();
        let mut all = if prev_o == "ok" { vec![] } else { vec![prev_o.trim_start_matches("fail:").to_string()] };
        all.extend(fails);
        let o = if all.is_empty() { "ok".to_string() } else { format!("fail:{}", all.join("; ")) };
        out.push(format!("{body} | O {o}"));
    }
    if std::env::var_os("VERIF_TRACE").is_some() { eprintln!("crash images opened: {images}"); }
    out
}

fn gen_case(eng: &mut RawEngine, seed: u64, case_no: u64, len: u64) -> Vec<String> {
    // generated against the real engine state (names that exist), then replayed with crash images
    let mut g = Gen { rng: Rng::new(seed.wrapping_mul(1_000_003).wrapping_add(case_no).wrapping_mul(3)), malformed: false, frag_bias: case_no % 2 == 0, huge: false, held: false };
    let mut lines = vec![format!("case {case_no}")];
    FULL_ON.store(false, Ordering::SeqCst);
    eng.exec(&lines[0]);
    let n_ops = len / 2 + g.rng.below(len + 1);
    let mut just_flushed = false;
    for k in 0..n_ops {
        let mut line = g.next(eng, just_flushed);
        // keep the files small: crash images are materialised in full
        if line.starts_with("reopen") || line.starts_with("set_min") { line = "flush".into(); }
        if k == 4 { line = "flush".into(); }
        let ws: Vec<&str> = line.split_whitespace().collect();
        if matches!(ws[0], "write" | "write_at" | "truncate_write") {
            let ni = if ws[0] == "write" { 2 } else { 3 };
            if ws[ni].parse::<usize>().unwrap_or(0) > 20_000 { let mut w: Vec<String> = ws.iter().map(|s| s.to_string()).collect(); w[ni] = "9000".into(); line = w.join(" "); }
        }
        just_flushed = line == "flush";
        let o = eng.exec(&line);
        lines.push(line);
        if o.starts_with("panic") { break; }
    }
    lines
}

/// `harness crash gen|run …`
pub fn main(args: &Args) -> i32 {
    quiet_panics();
    let tmp = std::path::PathBuf::from(args.get("--tmp").unwrap_or("/verif/.cache/tmp"));
    std::fs::create_dir_all(&tmp).unwrap();
    let mixes = args.num("--mixes", 4);
    match args.0.get(1).map(|s| s.as_str()).unwrap_or("") {
        "gen" => {
            let (seed, cases, first, len) = (args.num("--seed", 1), args.num("--cases", 4), args.num("--first-case", 0), args.num("--len", 20));
            let mut ops_out = std::io::BufWriter::new(std::fs::File::create(args.get("--ops").unwrap()).unwrap());
            let mut impl_out = std::io::BufWriter::new(std::fs::File::create(args.get("--out").unwrap()).unwrap());
            let mut eng = RawEngine::new(&tmp);
            for c in first..first + cases {
                let lines = gen_case(&mut eng, seed, c, len);
                let obs = run_case(&tmp, &mut eng, &lines, mixes, seed.wrapping_add(c));
                for (l, o) in lines.iter().zip(obs.iter()) { writeln!(ops_out, "{l}").unwrap(); writeln!(impl_out, "{o}").unwrap(); }
            }
            FULL_ON.store(false, Ordering::SeqCst);
            0
        }
        "run" => {
            let text = std::fs::read_to_string(args.get("--ops").unwrap()).unwrap();
            let lines: Vec<String> = text.lines().map(|s| s.to_string()).collect();
            let mut eng = RawEngine::new(&tmp);
            for o in run_case(&tmp, &mut eng, &lines, mixes, 1) { println!("{o}"); }
            0
        }
        _ => { eprintln!("usage: harness crash gen|run …"); 2 }
    }
}
