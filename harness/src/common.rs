//! Shared helpers: PRNG, hex, filler bytes, FNV-1a — bit-identical to lean/AnyDB/Model/Wire.lean.

pub struct Rng(pub u64);

impl Rng {
    pub fn new(seed: u64) -> Self {
        Rng(seed.wrapping_mul(0x9E3779B97F4A7C15) ^ 0xD1B54A32D192ED03)
    }
    pub fn next(&mut self) -> u64 {
        self.0 = self.0.wrapping_add(0x9E3779B97F4A7C15);
        let mut z = self.0;
        z = (z ^ (z >> 30)).wrapping_mul(0xBF58476D1CE4E5B9);
        z = (z ^ (z >> 27)).wrapping_mul(0x94D049BB133111EB);
        z ^ (z >> 31)
    }
    pub fn below(&mut self, n: u64) -> u64 {
        if n == 0 { 0 } else { self.next() % n }
    }
    pub fn range(&mut self, lo: u64, hi: u64) -> u64 {
        lo + self.below(hi - lo + 1)
    }
    pub fn chance(&mut self, num: u64, den: u64) -> bool {
        self.below(den) < num
    }
    pub fn pick<'a, T>(&mut self, xs: &'a [T]) -> &'a T {
        &xs[self.below(xs.len() as u64) as usize]
    }
    /// weighted choice: returns the index
    pub fn weighted(&mut self, ws: &[u32]) -> usize {
        let total: u64 = ws.iter().map(|&w| w as u64).sum();
        let mut r = self.below(total.max(1));
        for (i, &w) in ws.iter().enumerate() {
            if r < w as u64 {
                return i;
            }
            r -= w as u64;
        }
        ws.len() - 1
    }
}

pub fn hex(bytes: &[u8]) -> String {
    if bytes.is_empty() {
        return "-".to_string();
    }
    let mut s = String::with_capacity(bytes.len() * 2);
    for b in bytes {
        s.push_str(&format!("{:02x}", b));
    }
    s
}

pub fn unhex(s: &str) -> Option<Vec<u8>> {
    if s == "-" {
        return Some(vec![]);
    }
    if s.len() % 2 != 0 {
        return None;
    }
    (0..s.len())
        .step_by(2)
        .map(|i| u8::from_str_radix(&s[i..i + 2], 16).ok())
        .collect()
}

pub fn filler(n: usize, seed: u64) -> Vec<u8> {
    (0..n)
        .map(|i| {
            let i = i as u64;
            ((seed.wrapping_mul(7).wrapping_add(i * 13).wrapping_add(i / 256)) % 256) as u8
        })
        .collect()
}

pub fn fnv(bytes: &[u8]) -> u64 {
    let mut h: u64 = 0xcbf29ce484222325;
    for &b in bytes {
        h ^= b as u64;
        h = h.wrapping_mul(0x100000001b3);
    }
    h
}

pub fn pairs_str<'a>(it: impl Iterator<Item = (usize, usize)>) -> String {
    it.map(|(a, b)| format!("{a}:{b}")).collect::<Vec<_>>().join(" ")
}

/// Silence the default panic hook (panics are caught and reported as outcomes).
pub fn quiet_panics() {
    if std::env::var_os("VERIF_TRACE").is_some() {
        return;
    }
    std::panic::set_hook(Box::new(|_| {}));
}

pub struct Args(pub Vec<String>);
impl Args {
    pub fn get(&self, key: &str) -> Option<&str> {
        self.0.iter().position(|a| a == key).and_then(|i| self.0.get(i + 1)).map(|s| s.as_str())
    }
    pub fn num(&self, key: &str, default: u64) -> u64 {
        self.get(key).and_then(|s| s.parse().ok()).unwrap_or(default)
    }
    pub fn flag(&self, key: &str) -> bool {
        self.0.iter().any(|a| a == key)
    }
}
