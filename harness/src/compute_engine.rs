//! compute_diff: every exact `EagerVec::compute_*` family, incrementally maintained over histories of
//! source appends / truncate-and-regrow / redundant calls / writes / re-imports, with the internal
//! batch capacity forced down to a few elements (hook H3), against
//!   (a) the same method run from scratch on a fresh vector (model-free oracle of C06),
//!   (b) the defining formula evaluated by the Lean driver (`spec_f`) for the modelled families,
//!   (c) the evaluation log of the user closure and the recorded version (C19).

use std::{
    cell::RefCell,
    io::Write as _,
    panic::{AssertUnwindSafe, catch_unwind},
    rc::Rc,
};

use rawdb::Database;
use vecdb::{
    AnyStoredVec, AnyVec, BytesVec, EagerVec, Exit, ImportableVec, LZ4Vec, ReadableVec, StoredVec, Version, WritableVec,
    ZeroCopyVec,
};

use crate::common::*;

pub const METHODS: &[&str] = &[
    "to", "transform", "add", "subtract", "multiply", "divide", "transform3", "transform4", "cumulative", "cumulative_binary",
    "cumulative_tbinary", "cumulative_count", "rolling_count", "cumulative_count_from", "change", "max", "min", "sum",
    "rolling_sum", "rolling_max_from_starts", "rolling_min_from_starts", "all_time_high", "all_time_low", "all_time_low_excl",
    "all_time_high_from", "all_time_low_from", "lookback", "sum_of_others", "min_of_others", "max_of_others",
    "count_from_indexes", "indirect_sequential",
];

/// how the sources of a method are shaped: "v" plain values, "s" window starts (monotone, ≤ index),
/// "ge0" ≥ the first source element-wise is not needed … see `gen_sources`
fn shape(m: &str) -> &'static [&'static str] {
    match m {
        "to" => &["v"],
        "change" => &["inc"],
        "transform" | "cumulative" | "cumulative_count" | "rolling_count" | "cumulative_count_from" | "max" | "min"
        | "sum" | "all_time_high" | "all_time_low" | "all_time_low_excl" | "all_time_high_from" | "all_time_low_from" => &["v"],
        "add" | "multiply" | "cumulative_binary" | "cumulative_tbinary" => &["v", "v"],
        "subtract" => &["v", "le0"],
        "divide" => &["v", "nz"],
        "transform3" | "sum_of_others" | "min_of_others" | "max_of_others" => &["v", "v", "v"],
        "transform4" => &["v", "v", "v", "v"],
        "rolling_sum" | "rolling_max_from_starts" | "rolling_min_from_starts" | "lookback" => &["s", "v"],
        "count_from_indexes" => &["fi", "else"],
        "indirect_sequential" => &["idx", "tbl"],
        _ => &["v"],
    }
}

pub struct Case<S: StoredVec<I = usize, T = usize>, G: StoredVec<I = usize, T = usize>> {
    _dir: tempfile::TempDir,
    db: Database,
    method: String,
    window: usize,
    from: usize,
    src: Vec<S>,
    /// reference contents of the sources
    vals: Vec<Vec<usize>>,
    tgt: Option<EagerVec<G>>,
    ver: Vec<u32>,
    /// C19 reference: the combined version the last successful compute call presented (None = nothing computed yet)
    ref_recorded: Option<Version>,
    /// C19 reference: the versions of all sources at the last successful compute call
    ver_at_compute: Option<Vec<u32>>,
    /// an interrupted pass recorded a new version in memory only (nothing written since): a re-import legitimately shows the older one
    version_unpersisted: bool,
    /// C19 reference: (results, recorded version) after each of the last successful compute calls that left results
    produced: Vec<(Vec<usize>, Version)>,
    gen_no: u32,
    scratch_no: u32,
    exit: Exit,
}

fn open_src<S: StoredVec<I = usize, T = usize>>(db: &Database, name: &str, ver: u32) -> S {
    S::forced_import(db, name, Version::new(ver)).unwrap()
}

thread_local! { static EVAL_LOG: RefCell<Vec<usize>> = RefCell::new(vec![]); }

impl<S: StoredVec<I = usize, T = usize>, G: StoredVec<I = usize, T = usize>> Case<S, G> {
    pub fn new(tmp: &std::path::Path, method: &str, window: usize, from: usize) -> Self {
        std::fs::create_dir_all(tmp).unwrap();
        let dir = tempfile::tempdir_in(tmp).unwrap();
        let db = Database::open(dir.path()).unwrap();
        let n = shape(method).len();
        let src = (0..n).map(|k| open_src::<S>(&db, &format!("s{k}"), 1)).collect();
        let tgt = Some(EagerVec::<G>::forced_import(&db, "t", Version::new(1)).unwrap());
        Case { _dir: dir, db, method: method.into(), window, from, src, vals: vec![vec![]; n], tgt, ver: vec![1; n], ref_recorded: None, ver_at_compute: None, version_unpersisted: false, produced: vec![], gen_no: 0, scratch_no: 0, exit: Exit::new() }
    }

    /// append `k` elements to every source, respecting the shape constraints
    pub fn append(&mut self, k: usize, seed: u64) {
        let shapes = shape(&self.method);
        let mut rng = Rng::new(seed);
        for _ in 0..k {
            let i = self.vals[0].len();
            for (j, sh) in shapes.iter().enumerate() {
                let v = match *sh {
                    "v" => match rng.below(8) { 0 => 0, 1 => 1, _ => rng.below(50) as usize },
                    "le0" => rng.below(self.vals[0][i] as u64 + 1) as usize,
                    "nz" => 1 + rng.below(7) as usize,
                    "s" => {
                        let prev = self.vals[j].last().copied().unwrap_or(0);
                        let w = rng.below(5) as usize;
                        i.saturating_sub(w).max(prev).min(i)
                    }
                    "fi" => {
                        // first index of group i in the `else` vector: monotone, groups of 0..3 elements
                        let prev = self.vals[j].last().copied();
                        match prev { None => 0, Some(p) => p + rng.below(4) as usize }
                    }
                    "else" => 0, // filled below
                    "idx" => (self.vals[j].last().copied().unwrap_or(0) + rng.below(3) as usize).min(19),
                    "inc" => self.vals[j].last().copied().unwrap_or(0) + rng.below(9) as usize,
                    "tbl" => 0,
                    _ => 0,
                };
                if *sh != "else" && *sh != "tbl" {
                    self.vals[j].push(v);
                    self.src[j].push(v);
                }
            }
        }
        // dependent tables
        for (j, sh) in shapes.iter().enumerate() {
            if *sh == "else" {
                let need = self.vals[0].last().copied().unwrap_or(0) + rng.below(3) as usize;
                while self.vals[j].len() < need { self.vals[j].push(7); self.src[j].push(7); }
            }
            if *sh == "tbl" {
                while self.vals[j].len() < 20 { let v = 100 + self.vals[j].len() * 3; self.vals[j].push(v); self.src[j].push(v); }
            }
        }
        for s in self.src.iter_mut() { s.write().unwrap(); }
    }

    pub fn truncate_sources(&mut self, t: usize) {
        let shapes = shape(&self.method);
        for (j, sh) in shapes.iter().enumerate() {
            if *sh == "else" || *sh == "tbl" { continue; }
            if t < self.vals[j].len() {
                self.vals[j].truncate(t);
                self.src[j].truncate_if_needed_at(t).unwrap();
                self.src[j].write().unwrap();
            }
        }
        if shapes.contains(&"else") {
            // the grouped vector shrinks with its index
            let need = self.vals[0].last().copied().unwrap_or(0);
            let j = 1;
            if need < self.vals[j].len() {
                self.vals[j].truncate(need);
                self.src[j].truncate_if_needed_at(need).unwrap();
                self.src[j].write().unwrap();
            }
        }
    }

    /// replace source `k` by a vector with the same contents and the next version
    pub fn bump(&mut self, k: usize) {
        let v = self.ver[k] + 1;
        self.setver(k, v);
    }

    /// replace source `k` by a vector with the same contents and version `v` (higher OR lower than before)
    pub fn setver(&mut self, k: usize, v: u32) {
        self.ver[k] = v;
        self.gen_no += 1;
        let mut nv = open_src::<S>(&self.db, &format!("s{k}_g{}", self.gen_no), self.ver[k]);
        for &v in &self.vals[k] { nv.push(v); }
        nv.write().unwrap();
        self.src[k] = nv;
    }

    fn run_on(&self, t: &mut EagerVec<G>, max_from: usize) -> vecdb::Result<()> {
        let s = &self.src;
        let e = &self.exit;
        let w = self.window;
        let f = self.from;
        match self.method.as_str() {
            "to" => t.compute_to(max_from, s[0].len(), s[0].version(), |i| { EVAL_LOG.with(|l| l.borrow_mut().push(i)); (i, i * 3 + 1) }, e),
            "transform" => t.compute_transform(max_from, &s[0], |(i, a, ..)| { EVAL_LOG.with(|l| l.borrow_mut().push(i)); (i, a * 2 + 1) }, e),
            "add" => t.compute_add(max_from, &s[0], &s[1], e),
            "subtract" => t.compute_subtract(max_from, &s[0], &s[1], e),
            "multiply" => t.compute_multiply(max_from, &s[0], &s[1], e),
            "divide" => t.compute_divide(max_from, &s[0], &s[1], e),
            "transform3" => t.compute_transform3(max_from, &s[0], &s[1], &s[2], |(i, a, b, c, ..)| (i, a + 2 * b + 3 * c), e),
            "transform4" => t.compute_transform4(max_from, &s[0], &s[1], &s[2], &s[3], |(i, a, b, c, d, ..)| (i, a + b * c + d), e),
            "cumulative" => t.compute_cumulative(max_from, &s[0], e),
            "cumulative_binary" => t.compute_cumulative_binary(max_from, &s[0], &s[1], e),
            "cumulative_tbinary" => t.compute_cumulative_transformed_binary(max_from, &s[0], &s[1], |a, b| a * b + 1, e),
            "cumulative_count" => t.compute_cumulative_count(max_from, &s[0], |v| *v % 2 == 0, e),
            "rolling_count" => t.compute_rolling_count(max_from, &s[0], w, |v| *v % 2 == 0, e),
            "cumulative_count_from" => t.compute_cumulative_count_from(max_from, &s[0], f, |v| *v % 3 == 0, e),
            "change" => t.compute_change(max_from, &s[0], w, e),
            "max" => t.compute_max(max_from, &s[0], w, e),
            "min" => t.compute_min(max_from, &s[0], w, e),
            "sum" => t.compute_sum(max_from, &s[0], w, e),
            "rolling_sum" => t.compute_rolling_sum(max_from, &s[0], &s[1], e),
            "rolling_max_from_starts" => t.compute_rolling_max_from_starts(max_from, &s[0], &s[1], e),
            "rolling_min_from_starts" => t.compute_rolling_min_from_starts(max_from, &s[0], &s[1], e),
            "all_time_high" => t.compute_all_time_high(max_from, &s[0], e),
            "all_time_low" => t.compute_all_time_low(max_from, &s[0], e),
            "all_time_low_excl" => t.compute_all_time_low_(max_from, &s[0], e, true),
            "all_time_high_from" => t.compute_all_time_high_from(max_from, &s[0], f, e),
            "all_time_low_from" => t.compute_all_time_low_from(max_from, &s[0], f, e),
            "lookback" => t.compute_lookback(max_from, &s[0], &s[1], e),
            "sum_of_others" => t.compute_sum_of_others(max_from, &[&s[0], &s[1], &s[2]], e),
            "min_of_others" => t.compute_min_of_others(max_from, &[&s[0], &s[1], &s[2]], e),
            "max_of_others" => t.compute_max_of_others(max_from, &[&s[0], &s[1], &s[2]], e),
            "count_from_indexes" => t.compute_count_from_indexes(max_from, &s[0], &s[1], e),
            "indirect_sequential" => t.compute_indirect_sequential(max_from, &s[0], &s[1], e),
            m => panic!("unknown method {m}"),
        }
    }

    /// incremental run on the long-lived target, then a from-scratch run on a fresh one
    pub fn compute(&mut self, max_from: usize, cap_elems: usize) -> (String, Vec<String>) {
        let mut fails = vec![];
        let cap_bytes = if cap_elems == 0 { 1usize << 30 } else { cap_elems * 8 };
        let mut t = self.tgt.take().unwrap();
        let stored_before = t.len();
        let before: Vec<usize> = t.collect();
        let recorded_before = t.header().computed_version();
        let presented = {
            // what compute_init will compare: vec version + the method's dependency version
            t.header().vec_version()
        };
        let _ = presented;
        vecdb::verif::set_max_cache_size(cap_bytes);
        EVAL_LOG.with(|l| l.borrow_mut().clear());
        let r = catch_unwind(AssertUnwindSafe(|| self.run_on(&mut t, max_from)));
        let log: Vec<usize> = EVAL_LOG.with(|l| l.borrow().clone());
        vecdb::verif::set_max_cache_size(1 << 30);
        let out = match &r { Ok(Ok(())) => "ok".to_string(), Ok(Err(e)) => format!("err:{}", crate::vec_engine::err_name(e)), Err(_) => "panic".to_string() };
        let inc: Vec<usize> = catch_unwind(AssertUnwindSafe(|| t.collect())).unwrap_or_default();
        let recorded_after = t.header().computed_version();
        // scratch
        self.scratch_no += 1;
        let mut fresh = EagerVec::<G>::forced_import(&self.db, &format!("x{}", self.scratch_no), Version::new(1)).unwrap();
        EVAL_LOG.with(|l| l.borrow_mut().clear());
        let r2 = catch_unwind(AssertUnwindSafe(|| self.run_on(&mut fresh, 0)));
        let out2 = match &r2 { Ok(Ok(())) => "ok".to_string(), Ok(Err(e)) => format!("err:{}", crate::vec_engine::err_name(e)), Err(_) => "panic".to_string() };
        let scratch: Vec<usize> = catch_unwind(AssertUnwindSafe(|| fresh.collect())).unwrap_or_default();
        let _ = fresh.remove();
        // a panic or error that the from-scratch run reproduces at the same point is the method's
        // documented partiality (checked subtraction); only a disagreement is a C06 failure
        if out != out2 {
            fails.push(format!("C06: incremental run answered {out}, from-scratch run {out2}"));
        } else if out == "ok" && inc != scratch {
            let at = inc.iter().zip(scratch.iter()).position(|(a, b)| a != b).unwrap_or(inc.len().min(scratch.len()));
            fails.push(format!("C06: `{}` incremental result differs from the from-scratch run: len {} vs {}, first difference at {at}: {:?} vs {:?} (batch capacity {cap_elems}, max_from {max_from})",
                self.method, inc.len(), scratch.len(), inc.get(at), scratch.get(at)));
        }
        // C19, every method: when exactly ONE input's version changed since the last successful call (all other inputs as they
        // were), the combined version cannot be the same — the recorded version must move (and with it everything is recomputed)
        if out == "ok" {
            if let Some(prev) = &self.ver_at_compute {
                let diff: Vec<usize> = (0..self.ver.len().min(prev.len())).filter(|&k| prev[k] != self.ver[k]).collect();
                if diff.len() == 1 && recorded_after == recorded_before {
                    let k = diff[0];
                    fails.push(format!("C19: `{}`: the version of source {k} went from {} to {} (no other input changed) but the recorded version stayed {recorded_after:?}: results computed from the old input are kept",
                        self.method, prev[k], self.ver[k]));
                }
            }
            self.ver_at_compute = Some(self.ver.clone());
            self.version_unpersisted = false;
            if !inc.is_empty() {
                self.produced.push((inc.clone(), recorded_after));
                if self.produced.len() > 8 { self.produced.remove(0); }
            }
        }
        // C19: evaluation log of the closure + kept prefix
        if out == "ok" && matches!(self.method.as_str(), "to" | "transform") {
            // the version this call presents: the vector's own version + the dependency's (independent of what the header says)
            let presented = t.header().vec_version() + self.src[0].version();
            if recorded_after != presented {
                fails.push(format!("C19: the call presented version {presented:?} but the header records {recorded_after:?}"));
            }
            let changed = match self.ref_recorded { Some(v) => v != presented, None => recorded_before != presented };
            self.ref_recorded = Some(presented);
            let lo = if changed { 0 } else { max_from.min(stored_before) };
            let want: Vec<usize> = (lo..inc.len()).collect();
            if log != want {
                fails.push(format!("C19: closure evaluated at {:?}.. ({} calls), expected exactly [{lo}, {}) (version changed: {changed})", log.first(), log.len(), inc.len()));
            }
            if !changed && before.len() >= lo && inc.len() >= lo && before[..lo] != inc[..lo] {
                fails.push(format!("C19: elements below {lo} were altered although the version did not change"));
            }
        }
        self.tgt = Some(t);
        let fmt = |v: &Vec<usize>| if v.is_empty() { "-".to_string() } else { v.iter().map(|x| x.to_string()).collect::<Vec<_>>().join(",") };
        let srcs = self.vals.iter().map(fmt).collect::<Vec<_>>().join(" ");
        (format!("{out} | R {} | S {}", fmt(&inc), if srcs.is_empty() { "-".into() } else { srcs }), fails)
    }

    /// C19: a compute pass that is interrupted (the closure answers with a wrong index at position `len + k`): the results
    /// produced so far stay in the buffer, nothing is written.  Only for the closure method `to`.
    pub fn compute_fail(&mut self, k: usize) -> String {
        if self.method != "to" { return "ok".into(); }
        let mut t = self.tgt.take().unwrap();
        let at = t.len() + k;
        let n = self.src[0].len();
        if at >= n { self.tgt = Some(t); return "ok".into(); }
        let from = t.len();
        let ver = self.src[0].version();
        let presented = t.header().vec_version() + ver;
        let recorded_before = t.header().computed_version();
        let r = catch_unwind(AssertUnwindSafe(|| t.compute_to(from, n, ver, |i| if i == at { (i + 1, 0) } else { (i, i * 3 + 1) }, &self.exit)));
        let mut out = "ok".to_string();
        match r {
            Ok(Err(_)) => {}
            Ok(Ok(())) => out = "ok | O fail:C19: a compute pass whose closure answered with a wrong index succeeded".into(),
            Err(_) => out = "ok | O fail:panic".into(),
        }
        // the pass presented its version before it failed: what the header records now is the reference
        if t.header().computed_version() == presented { self.ref_recorded = Some(presented); }
        // what the failed pass produced so far was produced under the version it presented (a later `twrite` persists both)
        if let Ok(cur) = catch_unwind(AssertUnwindSafe(|| t.collect())) {
            if !cur.is_empty() {
                self.produced.push((cur, t.header().computed_version()));
                if self.produced.len() > 8 { let _ = self.produced.remove(0); }
            }
        }
        // whatever the failed pass left in memory (a new recorded version, buffered results) has not been written
        if t.header().computed_version() != recorded_before || t.len() != t.stored_len() { self.version_unpersisted = true; }
        self.ver_at_compute = None;
        self.tgt = Some(t);
        out
    }

    pub fn target_op(&mut self, op: &str) -> String {
        let mut t = self.tgt.take().unwrap();
        let out = match op {
            "twrite" => t.write().map(|_| ()).map_err(|e| crate::vec_engine::err_name(&e)),
            "tflush" => t.flush().map_err(|e| crate::vec_engine::err_name(&e)),
            "treimport" => {
                let rec = t.header().computed_version();
                let nonempty = t.len() > 0;
                drop(t);
                t = EagerVec::<G>::forced_import(&self.db, "t", Version::new(1)).unwrap();
                // the recorded version is now whatever was last persisted (an empty vector persists nothing): the
                // "exactly one input changed since the last call" reference starts afresh
                self.ver_at_compute = None;
                // results and the version recorded with them travel together: what comes back from disk must carry the
                // version under which exactly these results were produced
                let now: Vec<usize> = t.collect();
                if !now.is_empty() {
                    let lab = t.header().computed_version();
                    let under: Vec<Version> = self.produced.iter().filter(|(r, _)| *r == now).map(|(_, v)| *v).collect();
                    if !under.is_empty() && !under.contains(&lab) {
                        self.tgt = Some(t);
                        return format!("err:C19: after re-import the vector holds {} results that were produced under {:?} but its header records {:?}", now.len(), under[0], lab);
                    }
                }
                let unpersisted = std::mem::replace(&mut self.version_unpersisted, false);
                // … and the version the next call is compared with is the one that came back from disk
                if unpersisted { self.ref_recorded = None; }
                if nonempty && !unpersisted && t.header().computed_version() != rec { Err(format!("C19: recorded version {:?} became {:?} across re-import", rec, t.header().computed_version())) } else { Ok(()) }
            }
            _ => Ok(()),
        };
        self.tgt = Some(t);
        match out { Ok(()) => "ok".into(), Err(e) => format!("err:{e}") }
    }
}

fn run_case<S: StoredVec<I = usize, T = usize>, G: StoredVec<I = usize, T = usize>>(tmp: &std::path::Path, lines: &[String]) -> Vec<String> {
    let mut out = vec![];
    let mut case: Option<Case<S, G>> = None;
    for l in lines {
        let ws: Vec<&str> = l.split_whitespace().collect();
        let num = |i: usize| ws.get(i).and_then(|s| s.parse::<u64>().ok()).unwrap_or(0);
        match ws[0] {
            "case" => {
                let kv = |k: &str| ws.iter().find_map(|w| w.strip_prefix(&format!("{k}="))).unwrap_or("0").to_string();
                case = Some(Case::new(tmp, &kv("m"), kv("w").parse().unwrap_or(0), kv("f").parse().unwrap_or(0)));
                out.push(l.clone());
            }
            "append" => { case.as_mut().unwrap().append(num(1) as usize, num(2)); out.push("ok".into()); }
            "trunc" => { case.as_mut().unwrap().truncate_sources(num(1) as usize); out.push("ok".into()); }
            "push" => {
                let c = case.as_mut().unwrap();
                let k = num(1) as usize;
                c.vals[k].push(num(2) as usize);
                c.src[k].push(num(2) as usize);
                c.src[k].write().unwrap();
                out.push("ok".into());
            }
            "bump" => { case.as_mut().unwrap().bump(num(1) as usize); out.push("ok".into()); }
            "setver" => { case.as_mut().unwrap().setver(num(1) as usize, num(2) as u32); out.push("ok".into()); }
            "compute" => {
                let (obs, fails) = case.as_mut().unwrap().compute(num(1) as usize, num(2) as usize);
                let o = if fails.is_empty() { "ok".to_string() } else { format!("fail:{}", fails.join("; ")) };
                out.push(format!("{obs} | O {o}"));
            }
            "cfail" => { let r = case.as_mut().unwrap().compute_fail(num(1) as usize); out.push(r); }
            "twrite" | "tflush" | "treimport" => {
                let r = case.as_mut().unwrap().target_op(ws[0]);
                out.push(if r.starts_with("err:C19") { format!("ok | O fail:{}", &r[4..]) } else { r });
            }
            _ => out.push("bad-op".into()),
        }
    }
    out
}

fn gen_case(seed: u64, case_no: u64, len: u64, c19: bool) -> Vec<String> {
    let mut r = Rng::new(seed.wrapping_mul(1_000_003).wrapping_add(case_no).wrapping_mul(17));
    // C19 stream: the two closure methods (evaluation log) and multi-source methods (every input's version must count)
    let m = if c19 { *r.pick(&["to", "transform", "to", "transform", "add", "multiply", "transform3", "transform4", "sum_of_others", "max_of_others"]) } else { METHODS[(case_no as usize / 2) % METHODS.len()] };
    let w = *r.pick(&[0usize, 1, 2, 3, 5, 9, 40]);
    // rolling_count with window 0 underflows its counter in checked builds (both the incremental and the
    // from-scratch run panic): outside the comparable domain, recorded in DESIGN.md
    let w = if m == "rolling_count" && w == 0 { 4 } else { w };
    let f = r.below(12);
    let store = if case_no % 2 == 0 { "bytes" } else { "lz4" };
    let mut lines = vec![format!("case {case_no} m={m} w={w} f={f} store={store}")];
    let mut n = 0usize; // current source length
    let mut computed = 0usize;
    let mut first_changed = 0usize;
    let n_ops = len / 2 + r.below(len + 1);
    let nsrc = shape(m).len() as u64;
    for _ in 0..n_ops {
        if c19 && m == "to" && n > computed + 1 && r.chance(1, 7) {
            // an interrupted pass: `k` results stay buffered; the next call may resume behind them
            let k = r.below(((n - computed - 1) as u64).min(6)) as usize;
            lines.push(format!("cfail {k}"));
            // nothing stale below `computed`: the buffered results are valid too; otherwise the stale part still has to be redone
            if first_changed >= computed { first_changed = (computed + k).min(n); }
            computed += k;
            continue;
        }
        match r.weighted(&[30, 10, 34, 6, 4, 4, if c19 { 7 } else { 1 }, if c19 { 7 } else { 1 }]) {
            0 => {
                // now and then a source longer than one cursor chunk (4096 elements): window reads then cross a chunk boundary
                let k = if n < 4000 && r.chance(1, 30) { 4200 } else { *r.pick(&[1usize, 1, 2, 3, 7, 20]) };
                lines.push(format!("append {k} {}", r.below(1 << 30))); n += k;
            }
            1 if n > 0 => {
                // now and then exactly a whole number of pages of the (compressed) result: 2048 eight-byte elements per page
                let t = if n > 2048 && r.chance(1, 3) { (n / 2048) * 2048 - if r.chance(1, 4) { 2048.min((n / 2048) * 2048 - 2048) } else { 0 } }
                    else { match r.below(4) { 0 => 0, 1 => n - 1, 2 => n / 2, _ => r.below(n as u64) as usize } };
                lines.push(format!("trunc {t}"));
                // the last group of count_from_indexes also depends on the length of the grouped vector
                first_changed = first_changed.min(if m == "count_from_indexes" { t.saturating_sub(1) } else { t });
                n = t;
            }
            2 => {
                // the caller passes a starting index no greater than the first changed source index
                let limit = first_changed.min(computed);
                let mf = if limit >= 2048 && r.chance(1, 3) { (limit / 2048) * 2048 }
                    else { match r.below(5) { 0 => 0, 1 | 2 => limit, 3 => limit.saturating_sub(1), _ => r.below(limit as u64 + 1) as usize } };
                // count_from_indexes: the last group depends on the other vector's length
                let mf = if m == "count_from_indexes" { mf.min(computed.saturating_sub(1)) } else { mf };
                let cap = *r.pick(&[0usize, 1, 2, 3, 7, 64]);
                lines.push(format!("compute {mf} {cap}"));
                computed = n;
                first_changed = n;
            }
            3 => lines.push("twrite".into()),
            4 => lines.push("tflush".into()),
            5 => lines.push("treimport".into()),
            6 => { lines.push(format!("bump {}", r.below(nsrc))); }
            _ => { lines.push(format!("setver {} {}", r.below(nsrc), 1 + r.below(4))); }
        }
    }
    let mf = first_changed.min(computed);
    let mf = if m == "count_from_indexes" { mf.min(computed.saturating_sub(1)) } else { mf };
    lines.push(format!("compute {mf} {}", *r.pick(&[0usize, 1, 3])));
    lines
}

fn store_of(case_line: &str) -> &str {
    case_line.split_whitespace().find_map(|w| w.strip_prefix("store=")).unwrap_or("bytes")
}

fn exec_lines(tmp: &std::path::Path, lines: &[String]) -> Vec<String> {
    match store_of(&lines[0]) {
        "lz4" => run_case::<LZ4Vec<usize, usize>, LZ4Vec<usize, usize>>(tmp, lines),
        "zc" => run_case::<ZeroCopyVec<usize, usize>, BytesVec<usize, usize>>(tmp, lines),
        _ => run_case::<BytesVec<usize, usize>, BytesVec<usize, usize>>(tmp, lines),
    }
}

/// `harness compute gen|run …`
pub fn main(args: &Args) -> i32 {
    quiet_panics();
    let tmp = std::path::PathBuf::from(args.get("--tmp").unwrap_or("/verif/.cache/tmp"));
    match args.0.get(1).map(|s| s.as_str()).unwrap_or("") {
        "gen" => {
            let seed = args.num("--seed", 1);
            let cases = args.num("--cases", 10);
            let first = args.num("--first-case", 0);
            let len = args.num("--len", 20);
            let c19 = args.flag("--c19");
            let mut ops_out = std::io::BufWriter::new(std::fs::File::create(args.get("--ops").unwrap()).unwrap());
            let mut impl_out = std::io::BufWriter::new(std::fs::File::create(args.get("--out").unwrap()).unwrap());
            for c in first..first + cases {
                let lines = gen_case(seed, c, len, c19);
                let obs = exec_lines(&tmp, &lines);
                for (l, o) in lines.iter().zip(obs.iter()) {
                    // the model needs the sources: the request line of `compute` carries them
                    if l.starts_with("compute") {
                        let srcs = o.split(" | S ").nth(1).map(|s| s.split(" | O ").next().unwrap_or("")).unwrap_or("-");
                        writeln!(ops_out, "{l} | {srcs}").unwrap();
                    } else {
                        writeln!(ops_out, "{l}").unwrap();
                    }
                    writeln!(impl_out, "{o}").unwrap();
                }
            }
            0
        }
        "run" => {
            let path = args.get("--ops").unwrap();
            let text = std::fs::read_to_string(path).unwrap();
            let lines: Vec<String> = text.lines().map(|s| s.split(" | ").next().unwrap().to_string()).collect();
            let mut all = vec![];
            let mut i = 0;
            while i < lines.len() {
                let mut j = i + 1;
                while j < lines.len() && !lines[j].starts_with("case") { j += 1; }
                let obs = exec_lines(&tmp, &lines[i..j]);
                for (l, o) in lines[i..j].iter().zip(obs.iter()) {
                    if l.starts_with("compute") {
                        let srcs = o.split(" | S ").nth(1).map(|s| s.split(" | O ").next().unwrap_or("")).unwrap_or("-");
                        all.push(format!("{l} | {srcs}"));
                    } else { all.push(l.clone()); }
                    println!("{o}");
                }
                i = j;
            }
            std::fs::write(path, all.join("\n") + "\n").unwrap();
            0
        }
        _ => { eprintln!("usage: harness compute gen|run …"); 2 }
    }
}
