//! rawdb_diff: drives the real rawdb with a request stream, prints the canonical observation
//! after every request (same format as lean/Driver/RawdbProto.lean) and evaluates the
//! model-free oracles of C01 (reference byte vectors), C02 (extent invariants on the
//! implementation's own layout) and C13 (a refused request changes nothing).

use std::{
    collections::{BTreeMap, HashSet},
    panic::{AssertUnwindSafe, catch_unwind},
    sync::{Arc, Mutex},
};

use rawdb::{Database, Error, PAGE_SIZE, Region, verif};

use crate::common::*;

pub struct RawEngine {
    dir: tempfile::TempDir,
    pub db: Option<Database>,
    events: Arc<Mutex<Vec<String>>>,
    /// C01 reference: name ↦ (bytes, persisted)
    pub refdb: BTreeMap<Vec<u8>, (Vec<u8>, bool)>,
    last_state: String,
    pub tmp_root: std::path::PathBuf,
    /// set after a request whose outcome the reference cannot follow (panic, internal error)
    pub oracle_off: bool,
}

fn meta_event(offset: usize, data: &[u8]) -> String {
    let idx = offset / 4096;
    if data.iter().all(|&b| b == 0) {
        return format!("m{idx}:zero");
    }
    let u = |i: usize| u64::from_le_bytes(data[i..i + 8].try_into().unwrap()) as usize;
    let (start, len, reserved, id_len) = (u(0), u(8), u(16), u(24));
    let id = if 32 + id_len <= data.len() { &data[32..32 + id_len] } else { &data[32..32] };
    format!("m{idx}:{start}:{len}:{reserved}:{}", hex(id))
}

/// full events (with payloads) for the crash engine; recorded only while `FULL_ON`
pub static FULL_EVENTS: Mutex<Vec<verif::IoEvent>> = Mutex::new(Vec::new());
pub static FULL_ON: std::sync::atomic::AtomicBool = std::sync::atomic::AtomicBool::new(false);

pub fn install_io_tap(events: Arc<Mutex<Vec<String>>>) {
    verif::set_io_tap(Some(Arc::new(move |ev: &verif::IoEvent| {
        if FULL_ON.load(std::sync::atomic::Ordering::Relaxed) {
            FULL_EVENTS.lock().unwrap().push(ev.clone());
        }
        use verif::{FileId, IoEvent::*};
        let f = |f: &FileId| if *f == FileId::Data { "d" } else { "r" };
        let s = match ev {
            Write { file: FileId::Data, offset, data } => format!("w{offset}:{}:{}", data.len(), fnv(data)),
            Write { file: FileId::Regions, offset, data } => meta_event(*offset, data),
            SetLen { file, len } => format!("L{}{len}", f(file)),
            FlushAsync { file, offset, len } => format!("a{}{offset}:{len}", f(file)),
            FlushAsyncAll { file } => format!("A{}", f(file)),
            Sync { file } => format!("s{}", f(file)),
            Punch { offset, len } => format!("p{offset}:{len}"),
        };
        events.lock().unwrap().push(s);
    })));
}

fn canon_events(es: Vec<String>) -> Vec<String> {
    let mut out = vec![];
    let mut run: Vec<String> = vec![];
    // runs of hole punches (rayon) and of slot zeroings (HashMap order in retain_regions)
    // have no defined order: sort each run
    let kind = |e: &str| if e.starts_with('p') { 1 } else if e.ends_with(":zero") { 2 } else { 0 };
    let mut run_kind = 0;
    for e in es {
        let k = kind(&e);
        if k != 0 && (run.is_empty() || k == run_kind) {
            run_kind = k;
            run.push(e);
        } else {
            run.sort();
            out.append(&mut run);
            if k != 0 {
                run_kind = k;
                run.push(e);
            } else {
                out.push(e);
            }
        }
    }
    run.sort();
    out.append(&mut run);
    out
}

pub fn err_name(e: &Error) -> String {
    match e {
        Error::WriteOutOfBounds { .. } => "WriteOutOfBounds".into(),
        Error::TruncateInvalid { .. } => "TruncateInvalid".into(),
        Error::RegionAlreadyExists => "RegionAlreadyExists".into(),
        Error::RegionNotFound => "RegionNotFound".into(),
        Error::RegionStillReferenced { .. } => "RegionStillReferenced".into(),
        Error::RegionIndexMismatch => "RegionIndexMismatch".into(),
        Error::RegionMetadataUnwritten => "RegionMetadataUnwritten".into(),
        Error::RegionSizeOverflow { .. } => "RegionSizeOverflow".into(),
        Error::HoleTooSmall { .. } => "HoleTooSmall".into(),
        Error::OverlappingCopyRanges { .. } => "OverlappingCopyRanges".into(),
        Error::InvariantViolation(_) => "InvariantViolation".into(),
        other => format!("Other({})", format!("{other:?}").split(|c: char| !c.is_alphanumeric()).next().unwrap_or("")),
    }
}

const REFUSED: &[&str] = &[
    "err:WriteOutOfBounds",
    "err:TruncateInvalid",
    "err:RegionAlreadyExists",
    "err:RegionNotFound",
    "err:RegionStillReferenced",
];

impl RawEngine {
    pub fn new(tmp_root: &std::path::Path) -> Self {
        std::fs::create_dir_all(tmp_root).unwrap();
        let events = Arc::new(Mutex::new(vec![]));
        install_io_tap(events.clone());
        let dir = tempfile::tempdir_in(tmp_root).unwrap();
        let db = Database::open(dir.path()).unwrap();
        let mut e = RawEngine {
            dir,
            db: Some(db),
            events,
            refdb: BTreeMap::new(),
            last_state: String::new(),
            tmp_root: tmp_root.to_owned(),
            oracle_off: false,
        };
        e.last_state = e.state_dump();
        e
    }

    pub fn reset(&mut self) {
        self.db = None;
        self.dir = tempfile::tempdir_in(&self.tmp_root).unwrap();
        self.db = Some(Database::open(self.dir.path()).unwrap());
        self.refdb.clear();
        self.events.lock().unwrap().clear();
        self.oracle_off = false;
        self.last_state = self.state_dump();
    }

    fn db(&self) -> &Database {
        self.db.as_ref().unwrap()
    }

    fn region(&self, id: &[u8]) -> Option<Region> {
        self.db().get_region(std::str::from_utf8(id).ok()?)
    }

    /// `R … | H … | P … | V … | F …` — the part of the observation that is state
    pub fn state_dump(&self) -> String {
        let db = self.db();
        let layout = db.layout();
        let regions = db.regions();
        let mut regs = vec![];
        for (i, r) in regions.index_to_region().iter().enumerate() {
            if let Some(r) = r {
                let (start, len, reserved, id) = {
                    let m = r.meta();
                    (m.start(), m.len(), m.reserved(), m.id().to_string())
                };
                let in_layout = layout.start_to_region().get(&start).is_some_and(|x| x.index() == i);
                let mmap = db.mmap();
                let h = if start + len <= mmap.len() { fnv(&mmap[start..start + len]) } else { 0 };
                regs.push(format!(
                    "{i}:{start}:{len}:{reserved}:{}:{h}:{}",
                    hex(id.as_bytes()),
                    if in_layout { "L" } else { "x" }
                ));
            }
        }
        let rfile_slots = std::fs::metadata(self.dir.path().join("regions")).map(|m| m.len() as usize / 4096).unwrap_or(0);
        format!(
            "R {} | H {} | P {} | V {} | F {} {} {} {}",
            regs.join(" "),
            pairs_str(layout.start_to_hole().iter().map(|(a, b)| (*a, *b))),
            pairs_str(layout.pending_holes().iter().map(|(a, b)| (*a, *b))),
            pairs_str(layout.start_to_reserved().iter().map(|(a, b)| (*a, *b))),
            db.file_len(),
            layout.len(),
            rfile_slots,
            layout.start_to_region().len()
        )
    }

    /// C02 on the implementation's own state; `None` = holds
    pub fn check_c02(&self) -> Option<String> { c02_of(self.db(), self.dir.path()) }

    /// C01: names, lengths and bytes against the reference; `None` = agrees
    pub fn check_c01(&self) -> Option<String> {
        let db = self.db();
        let names: HashSet<Vec<u8>> = db.regions().id_to_index().keys().map(|k| k.as_bytes().to_vec()).collect();
        for n in &names {
            if !self.refdb.contains_key(n) {
                return Some(format!("region '{}' exists but the reference has none", hex(n)));
            }
        }
        for (n, (bytes, _)) in &self.refdb {
            let Some(r) = self.region(n) else {
                return Some(format!("region '{}' missing", hex(n)));
            };
            let reader = r.create_reader();
            if reader.len() != bytes.len() {
                return Some(format!("region '{}' len {} != reference {}", hex(n), reader.len(), bytes.len()));
            }
            let got = reader.read_all();
            if got != &bytes[..] {
                let i = got.iter().zip(bytes.iter()).position(|(a, b)| a != b).unwrap();
                return Some(format!("region '{}' byte {i}: {} != reference {}", hex(n), got[i], bytes[i]));
            }
        }
        None
    }

    /// Executes one request; returns the observation line.
    pub fn exec(&mut self, line: &str) -> String {
        let ws: Vec<&str> = line.split_whitespace().collect();
        if ws.is_empty() {
            return "bad-op".into();
        }
        if ws[0] == "case" {
            self.reset();
            return line.trim().to_string();
        }
        self.events.lock().unwrap().clear();
        let holes_before: Vec<(usize, usize)> = self.db().layout().start_to_hole().iter().map(|(a, b)| (*a, *b)).collect();
        let flen_before = self.db().file_len();
        let starts_before: BTreeMap<usize, usize> = self
            .db()
            .regions()
            .index_to_region()
            .iter()
            .enumerate()
            .filter_map(|(i, r)| r.as_ref().map(|r| (i, r.meta().start())))
            .collect();

        let res = catch_unwind(AssertUnwindSafe(|| self.apply(&ws)));
        let (out, expect) = match res {
            Ok(Some(x)) => x,
            Ok(None) => return "bad-op".into(),
            Err(_) => ("panic".to_string(), Expect::Any),
        };
        if self.db.is_none() {
            return format!("{out} | closed");
        }
        let state = self.state_dump();
        let evs = canon_events(std::mem::take(&mut *self.events.lock().unwrap()));

        // ---- oracles (model-free) ----
        let mut fails: Vec<String> = vec![];
        match &expect {
            Expect::Any => {}
            Expect::Ok => {
                if !out.starts_with("ok") {
                    fails.push(format!("C01 expected success, got {out}"));
                    self.oracle_off = true;
                }
            }
            Expect::Err(k) => {
                if out != format!("err:{k}") {
                    fails.push(format!("C13 expected refusal err:{k}, got {out}"));
                    self.oracle_off = true;
                }
            }
        }
        if out == "panic" {
            fails.push("panic".into());
            self.oracle_off = true;
        }
        if REFUSED.contains(&out.as_str()) && state != self.last_state {
            fails.push(format!("C13 refused request ({out}) changed the state"));
        }
        if !self.oracle_off {
            if let Some(m) = self.check_c01() {
                fails.push(format!("C01 {m}"));
            }
        }
        if let Some(m) = self.check_c02() {
            fails.push(format!("C02 {m}"));
        }
        // C02 reuse clause: a placement must use an adequate free extent instead of growing the file
        if matches!(ws[0], "create" | "write" | "write_at" | "truncate_write") && out.starts_with("ok") {
            let db = self.db();
            let regions = db.regions();
            for (i, r) in regions.index_to_region().iter().enumerate() {
                let Some(r) = r else { continue };
                let m = r.meta();
                let placed = match starts_before.get(&i) {
                    None => true,
                    Some(&s) => s != m.start(),
                };
                if placed {
                    let need = m.reserved();
                    if holes_before.iter().any(|&(_, z)| z >= need) {
                        if !holes_before.iter().any(|&(s, z)| s == m.start() && z >= need) {
                            fails.push(format!("C02 region {i} placed at {} although an adequate free extent existed", m.start()));
                        }
                        if db.file_len() != flen_before {
                            fails.push("C02 file grew although an adequate free extent existed".into());
                        }
                    }
                }
            }
        }
        self.last_state = state.clone();
        let o = if fails.is_empty() { "ok".to_string() } else { format!("fail:{}", fails.join("; ")) };
        format!("{out} | {state} | E {} | O {o}", evs.join(" "))
    }

    fn outcome<T>(r: rawdb::Result<T>, okf: impl FnOnce(T) -> String) -> String {
        match r {
            Ok(v) => okf(v),
            Err(e) => format!("err:{}", err_name(&e)),
        }
    }

    fn apply(&mut self, ws: &[&str]) -> Option<(String, Expect)> {
        let num = |s: &str| s.parse::<usize>().ok();
        let ok = |_: ()| "ok".to_string();
        match ws {
            ["create", id] => {
                let id = unhex(id)?;
                let ids = std::str::from_utf8(&id).ok()?.to_string();
                let r = self.db().create_region_if_needed(&ids);
                self.refdb.entry(id).or_insert((vec![], false));
                Some((Self::outcome(r, |r| format!("ok:{}", r.index())), Expect::Ok))
            }
            ["write", id, n, seed] | ["write_at", id, _, n, seed] | ["truncate_write", id, _, n, seed] => {
                let idb = unhex(id)?;
                let data = filler(num(n)?, seed.parse().ok()?);
                let at = if ws[0] == "write" { None } else { Some(num(ws[2])?) };
                let trunc = ws[0] == "truncate_write";
                let Some(region) = self.region(&idb) else {
                    return Some(("err:NoSuchRegion".into(), Expect::Any));
                };
                let r = match (at, trunc) {
                    (None, _) => region.write(&data),
                    (Some(a), false) => region.write_at(&data, a),
                    (Some(a), true) => region.truncate_write(a, &data),
                };
                let e = self.refdb.get_mut(&idb).unwrap();
                let len = e.0.len();
                let expect = match at {
                    Some(a) if a > len => Expect::Err("WriteOutOfBounds"),
                    _ => {
                        let off = at.unwrap_or(len);
                        if trunc {
                            e.0.truncate(off);
                        }
                        if e.0.len() < off + data.len() {
                            e.0.resize(off + data.len(), 0);
                        }
                        e.0[off..off + data.len()].copy_from_slice(&data);
                        if e.0.len() != len {
                            e.1 = true;
                        }
                        Expect::Ok
                    }
                };
                Some((Self::outcome(r, ok), expect))
            }
            ["truncate", id, from] => {
                let idb = unhex(id)?;
                let from = num(from)?;
                let Some(region) = self.region(&idb) else {
                    return Some(("err:NoSuchRegion".into(), Expect::Any));
                };
                let r = region.truncate(from);
                let e = self.refdb.get_mut(&idb).unwrap();
                let expect = if from > e.0.len() {
                    Expect::Err("TruncateInvalid")
                } else {
                    if from != e.0.len() {
                        e.0.truncate(from);
                        e.1 = true;
                    }
                    Expect::Ok
                };
                Some((Self::outcome(r, ok), expect))
            }
            ["rename", id, nid] => {
                let idb = unhex(id)?;
                let nidb = unhex(nid)?;
                let Some(region) = self.region(&idb) else {
                    return Some(("err:NoSuchRegion".into(), Expect::Any));
                };
                let r = region.rename(std::str::from_utf8(&nidb).ok()?);
                let expect = if self.refdb.contains_key(&nidb) {
                    Expect::Err("RegionAlreadyExists")
                } else {
                    let mut v = self.refdb.remove(&idb).unwrap();
                    v.1 = true;
                    self.refdb.insert(nidb, v);
                    Expect::Ok
                };
                Some((Self::outcome(r, ok), expect))
            }
            ["remove", id] | ["remove_held", id] => {
                let idb = unhex(id)?;
                let ids = std::str::from_utf8(&idb).ok()?.to_string();
                let held = if ws[0] == "remove_held" { self.region(&idb) } else { None };
                let r = self.db().remove_region(&ids);
                let expect = if !self.refdb.contains_key(&idb) {
                    Expect::Err("RegionNotFound")
                } else if held.is_some() {
                    Expect::Err("RegionStillReferenced")
                } else {
                    self.refdb.remove(&idb);
                    Expect::Ok
                };
                drop(held);
                Some((Self::outcome(r, ok), expect))
            }
            ["retain", ids @ ..] => {
                let keep: Vec<Vec<u8>> = ids.iter().map(|s| unhex(s)).collect::<Option<_>>()?;
                let set: HashSet<String> = keep.iter().map(|b| String::from_utf8(b.clone()).unwrap()).collect();
                let r = self.db().retain_regions(set);
                self.refdb.retain(|k, _| keep.contains(k));
                Some((Self::outcome(r, ok), Expect::Ok))
            }
            ["flush"] => Some((Self::outcome(self.db().flush(), |n| format!("ok:{n}")), Expect::Ok)),
            ["region_flush", id] => {
                let idb = unhex(id)?;
                let Some(region) = self.region(&idb) else {
                    return Some(("err:NoSuchRegion".into(), Expect::Any));
                };
                Some((Self::outcome(region.flush(), |b| format!("ok:{}", b as u8)), Expect::Any))
            }
            ["compact"] => Some((Self::outcome(self.db().compact(), ok), Expect::Ok)),
            ["reopen", n] => {
                let n = num(n)?;
                self.db = None;
                let r = Database::open_with_min_len(self.dir.path(), n);
                let out = match r {
                    Ok(db) => {
                        self.db = Some(db);
                        "ok".to_string()
                    }
                    Err(e) => format!("err:{}", err_name(&e)),
                };
                self.refdb.retain(|_, v| v.1);
                Some((out, Expect::Ok))
            }
            ["set_min_len", n] => Some((Self::outcome(self.db().set_min_len(num(n)?), ok), Expect::Ok)),
            ["set_min_regions", n] => Some((Self::outcome(self.db().set_min_regions(num(n)?), ok), Expect::Ok)),
            _ => None,
        }
    }
}

pub enum Expect {
    Ok,
    Err(&'static str),
    Any,
}

// ---------------------------------------------------------------------------------------
// generator

const SIZES: &[usize] = &[0, 1, 7, 100, 4095, 4096, 4097, 8191, 8192, 8193, 20000, 70000, 300000];
const SIZE_W: &[u32] = &[3, 6, 6, 8, 5, 6, 5, 4, 4, 4, 5, 2, 1];

fn name_pool() -> Vec<Vec<u8>> {
    let mut v: Vec<Vec<u8>> = (0..8).map(|i| format!("r{i}").into_bytes()).collect();
    v.push(b"a".to_vec());
    v.push(vec![b'x'; 1024]);
    v.push("région-ü∑".as_bytes().to_vec());
    v.push(b"sp ace/and:chars\\\"'".to_vec());
    v
}

pub struct Gen {
    pub rng: Rng,
    pub malformed: bool,
    pub frag_bias: bool,
    /// now and then one write larger than the whole file (growth beyond doubling, relocation to the end of the file)
    pub huge: bool,
    /// now and then a removal while another handle to the region is alive (refused; must change nothing) in the MIDDLE of a case
    pub held: bool,
}

impl Gen {
    fn size(&mut self) -> usize {
        if self.huge && self.rng.chance(1, 9) {
            return 1_100_000 + self.rng.below(2_000_000) as usize;
        }
        if self.rng.chance(1, 4) {
            self.rng.below(12000) as usize
        } else {
            SIZES[self.rng.weighted(SIZE_W)]
        }
    }

    /// next request given the reference state; `None` ends the case
    pub fn next(&mut self, eng: &RawEngine, just_flushed: bool) -> String {
        let pool = name_pool();
        let live: Vec<Vec<u8>> = eng.refdb.keys().cloned().collect();
        let absent: Vec<Vec<u8>> = pool.iter().filter(|n| !eng.refdb.contains_key(*n)).cloned().collect();
        let r = &mut self.rng;
        if live.is_empty() || (live.len() < 3 && r.chance(1, 2)) {
            if let Some(n) = absent.first() {
                let n = if r.chance(1, 2) { n.clone() } else { r.pick(&absent).clone() };
                return format!("create {}", hex(&n));
            }
        }
        if self.held && r.chance(1, 12) && !live.is_empty() {
            return format!("remove_held {}", hex(&r.pick(&live)[..]));
        }
        if self.malformed && r.chance(1, 4) && !live.is_empty() {
            let id = r.pick(&live).clone();
            let len = eng.refdb[&id].0.len();
            return match r.below(5) {
                0 => format!("write_at {} {} {} {}", hex(&id), len + 1 + r.below(5000) as usize, r.below(100), r.below(255)),
                1 => format!("truncate {} {}", hex(&id), len + 1 + r.below(5000) as usize),
                2 => format!("rename {} {}", hex(&id), hex(&r.pick(&live)[..])),
                3 => match absent.first() {
                    Some(a) => format!("remove {}", hex(a)),
                    None => "flush".into(),
                },
                _ => format!("truncate_write {} {} {} {}", hex(&id), len + 1 + r.below(3) as usize, r.below(100), r.below(255)),
            };
        }
        // weights: create write write_at truncate truncate_write rename remove retain flush region_flush compact reopen set_min_len set_min_regions
        let mut w = [8u32, 30, 10, 6, 6, 4, 6, 1, 9, 2, 3, 0, 1, 1];
        if self.frag_bias {
            w[0] = 14;
            w[6] = 14;
            w[8] = 14;
        }
        if just_flushed {
            w[11] = 12;
        }
        if absent.is_empty() {
            w[0] = 0;
        }
        let id = r.pick(&live).clone();
        let len = eng.refdb[&id].0.len();
        if len > 700_000 {
            w[1] = 2;
            w[3] = 20;
        }
        match r.weighted(&w) {
            0 => format!("create {}", hex(&r.pick(&absent)[..])),
            1 => {
                let n = self.size();
                format!("write {} {} {}", hex(&id), n, self.rng.below(255))
            }
            2 => {
                let at = match r.below(5) {
                    0 => 0,
                    1 => len / 2,
                    2 => len.saturating_sub(1),
                    3 => len,
                    _ => r.below(len as u64 + 1) as usize,
                };
                let n = self.size();
                format!("write_at {} {} {} {}", hex(&id), at, n, self.rng.below(255))
            }
            3 => {
                let from = match r.below(4) {
                    0 => 0,
                    1 => len,
                    2 => len.saturating_sub(1),
                    _ => r.below(len as u64 + 1) as usize,
                };
                format!("truncate {} {}", hex(&id), from)
            }
            4 => {
                let at = match r.below(4) {
                    0 => 0,
                    1 => len,
                    2 => len / 2,
                    _ => r.below(len as u64 + 1) as usize,
                };
                let n = self.size();
                format!("truncate_write {} {} {} {}", hex(&id), at, n, self.rng.below(255))
            }
            5 => match absent.is_empty() {
                false => format!("rename {} {}", hex(&id), hex(&r.pick(&absent)[..])),
                true => "flush".into(),
            },
            6 => format!("remove {}", hex(&id)),
            7 => {
                let keep: Vec<String> = live.iter().filter(|_| r.chance(2, 3)).map(|n| hex(n)).collect();
                format!("retain {}", keep.join(" ")).trim_end().to_string()
            }
            8 => "flush".into(),
            9 => format!("region_flush {}", hex(&id)),
            10 => "compact".into(),
            11 => format!("reopen {}", *r.pick(&[0usize, 0, 0, 5000, 3 << 20])),
            12 => format!("set_min_len {}", r.below(4 << 20)),
            _ => format!("set_min_regions {}", r.below(40)),
        }
    }
}

/// `harness rawdb gen|run …`
pub fn main(args: &Args) -> i32 {
    quiet_panics();
    let tmp = std::path::PathBuf::from(args.get("--tmp").unwrap_or("/verif/.cache/tmp"));
    let mode = args.0.get(1).map(|s| s.as_str()).unwrap_or("");
    match mode {
        "gen" => {
            let seed = args.num("--seed", 1);
            let cases = args.num("--cases", 10);
            let len = args.num("--len", 40);
            let first_case = args.num("--first-case", 0);
            let malformed = args.flag("--malformed");
            let held = args.flag("--held"); // open stream: include the known refused-removal pattern
            let huge = args.flag("--huge");
            let mut ops_out = std::io::BufWriter::new(std::fs::File::create(args.get("--ops").unwrap()).unwrap());
            let mut impl_out = std::io::BufWriter::new(std::fs::File::create(args.get("--out").unwrap()).unwrap());
            use std::io::Write;
            let mut eng = RawEngine::new(&tmp);
            for c in 0..cases {
                let case_no = first_case + c;
                let mut g = Gen {
                    rng: Rng::new(seed.wrapping_mul(1_000_003).wrapping_add(case_no)),
                    malformed,
                    frag_bias: case_no % 3 == 1,
                    huge,
                    held: held && args.flag("--held-anywhere"),
                };
                let line = format!("case {case_no}");
                writeln!(ops_out, "{line}").unwrap();
                writeln!(impl_out, "{}", eng.exec(&line)).unwrap();
                // configuration: initial size
                if g.rng.chance(1, 3) {
                    let line = format!("reopen {}", *g.rng.pick(&[4096usize, 5000, 1 << 20, (1 << 20) + 1, 3 << 20]));
                    writeln!(ops_out, "{line}").unwrap();
                    writeln!(impl_out, "{}", eng.exec(&line)).unwrap();
                }
                let mut just_flushed = false;
                let n_ops = len / 2 + g.rng.below(len + 1);
                for k in 0..n_ops {
                    let line = if held && k + 1 == n_ops && !eng.refdb.is_empty() {
                        let live: Vec<Vec<u8>> = eng.refdb.keys().cloned().collect();
                        format!("remove_held {}", hex(&g.rng.pick(&live)[..]))
                    } else {
                        g.next(&eng, just_flushed)
                    };
                    just_flushed = line == "flush";
                    let obs = eng.exec(&line);
                    writeln!(ops_out, "{line}").unwrap();
                    writeln!(impl_out, "{obs}").unwrap();
                    if obs.starts_with("panic") || obs.contains("| closed") {
                        break;
                    }
                }
            }
            0
        }
        "run" => {
            let ops = std::fs::read_to_string(args.get("--ops").unwrap()).unwrap();
            let mut eng = RawEngine::new(&tmp);
            let mut closed = false;
            for line in ops.lines() {
                if line.starts_with("case") {
                    closed = false;
                }
                if closed {
                    println!("skipped");
                    continue;
                }
                let obs = eng.exec(line);
                if obs.starts_with("panic") || obs.contains("| closed") {
                    closed = true;
                }
                println!("{obs}");
            }
            0
        }
        _ => {
            eprintln!("usage: harness rawdb gen|run …");
            2
        }
    }
}

/// C02 on a database's own state; `None` = holds (also used by the directed schedules of C10)
pub fn c02_of(db: &Database, dir: &std::path::Path) -> Option<String> {
    
    let layout = db.layout();
    let regions = db.regions();
    let flen = db.file_len();
    let actual = std::fs::metadata(dir.join("data")).map(|m| m.len() as usize).unwrap_or(0);
    if actual != flen {
        return Some(format!("file length {actual} != cached {flen}"));
    }
    let mut ext: Vec<(usize, usize, &'static str)> = vec![];
    let mut live = 0;
    let mut ids = HashSet::new();
    for (i, r) in regions.index_to_region().iter().enumerate() {
        let Some(r) = r else { continue };
        live += 1;
        let m = r.meta();
        if m.start() % PAGE_SIZE != 0 || m.reserved() % PAGE_SIZE != 0 || m.reserved() < PAGE_SIZE {
            return Some(format!("region {i} not page aligned: {}", *m));
        }
        if m.len() > m.reserved() {
            return Some(format!("region {i} len > reserved"));
        }
        if m.start() + m.reserved() > flen {
            return Some(format!("region {i} extends past the file end {flen}: {}", *m));
        }
        if !layout.start_to_region().get(&m.start()).is_some_and(|x| x.index() == i) {
            return Some(format!("region {i} '{}' not registered in the layout at its start", m.id()));
        }
        if regions.id_to_index().get(m.id()) != Some(&i) {
            return Some(format!("id_to_index inconsistent for slot {i}"));
        }
        if !ids.insert(m.id().to_string()) {
            return Some(format!("duplicate id {}", m.id()));
        }
        ext.push((m.start(), m.reserved(), "region"));
    }
    if layout.start_to_region().len() != live || regions.id_to_index().len() != live {
        return Some(format!(
            "layout has {} regions, id map {}, slots {live}",
            layout.start_to_region().len(),
            regions.id_to_index().len()
        ));
    }
    for (&s, &z) in layout.start_to_hole() {
        ext.push((s, z, "hole"));
    }
    for (&s, &z) in layout.pending_holes() {
        ext.push((s, z, "pending"));
    }
    for (&s, &z) in layout.start_to_reserved() {
        ext.push((s, z, "reservation"));
    }
    ext.sort();
    let mut pos = 0usize;
    let mut prev_hole_end: Option<usize> = None;
    for &(s, z, kind) in &ext {
        if z == 0 || s % PAGE_SIZE != 0 || z % PAGE_SIZE != 0 {
            return Some(format!("{kind} extent ({s},{z}) empty or unaligned"));
        }
        if s < pos {
            return Some(format!("{kind} extent ({s},{z}) overlaps the previous extent ending at {pos}"));
        }
        if s > pos {
            return Some(format!("bytes [{pos},{s}) below the allocated end belong to no extent"));
        }
        if kind == "hole" {
            if prev_hole_end == Some(s) {
                return Some(format!("adjacent free extents not merged at {s}"));
            }
            prev_hole_end = Some(s + z);
        }
        pos = s + z;
    }
    if pos != layout.len() {
        return Some(format!("extents end at {pos} but Layout::len() = {}", layout.len()));
    }
    if layout.len() > flen {
        return Some(format!("allocated end {} beyond file length {flen}", layout.len()));
    }
    None
    }
