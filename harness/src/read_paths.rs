//! C08: every way of reading a vector, on one state, against the reference contents.
//! `battery` derives a deterministic list of ranges / indices from (seed, len, stored_len, per_page) —
//! the Lean driver derives the same list (`VecM.readPlan`) — runs every read path, checks that all agree
//! with the reference restricted to the range, and returns the FNV hash of the primary path's answers.

use std::panic::{AssertUnwindSafe, catch_unwind};

use vecdb::ReadableVec;

use crate::vec_engine::{Val, mix};

pub const N_RANGES: u64 = 24;
pub const N_POINTS: u64 = 12;

pub fn candidates(len: usize, stored: usize, pp: usize) -> Vec<usize> {
    vec![0, 1, stored.saturating_sub(1), stored, stored + 1, len.saturating_sub(1), len, len + 1, pp.saturating_sub(1), pp, pp + 1, (1usize << 63) - 1]
}

pub fn pick(seed: u64, j: u64, len: usize, stored: usize, pp: usize) -> usize {
    let m = mix(seed.wrapping_mul(1_000_003).wrapping_add(j));
    if m % 3 == 0 {
        ((m / 3) % (len as u64 + 2)) as usize
    } else {
        let c = candidates(len, stored, pp);
        c[((m / 3) % c.len() as u64) as usize]
    }
}

pub struct Fnv(pub u64);
impl Fnv {
    pub fn new() -> Self { Fnv(0xcbf29ce484222325) }
    pub fn byte(&mut self, b: u8) { self.0 ^= b as u64; self.0 = self.0.wrapping_mul(0x100000001b3); }
    pub fn val(&mut self, v: u64) { for b in v.to_le_bytes() { self.byte(b); } }
}

/// reference restricted to [a, b): the non-deleted elements in index order
pub fn spec_range(reference: &[Option<u64>], a: usize, b: usize) -> Vec<u64> {
    let b = b.min(reference.len());
    if a >= b { return vec![]; }
    reference[a..b].iter().filter_map(|x| *x).collect()
}

fn guarded<R>(what: &str, fails: &mut Vec<String>, f: impl FnOnce() -> R) -> Option<R> {
    match catch_unwind(AssertUnwindSafe(f)) {
        Ok(r) => Some(r),
        Err(_) => { fails.push(format!("C08: {what} panics")); None }
    }
}

/// all range paths of one readable vector for one range; `who` names the vector (rw / clone)
pub fn range_paths<T: Val + vecdb::VecValue + PartialOrd, RV: ReadableVec<usize, T> + Sized>(v: &RV, who: &str, a: usize, b: usize, want: &[u64], fails: &mut Vec<String>) -> Option<Vec<u64>> {
    range_paths_with::<T, RV>(v, who, a, b, Some(want), usize::MAX, fails)
}

/// `want = None`: the vector is a read-only clone of a writer with unwritten changes — what it shows is the stored
/// prefix, not the reference; all its read paths must still agree with each other and return at most `cap` elements
/// (`cap` = the part of `[a, b)` below the writer's current length: a clone never shows more than the writer has)
pub fn range_paths_with<T: Val + vecdb::VecValue + PartialOrd, RV: ReadableVec<usize, T> + Sized>(v: &RV, who: &str, a: usize, b: usize, want: Option<&[u64]>, cap: usize, fails: &mut Vec<String>) -> Option<Vec<u64>> {
    let conv = |x: Vec<T>| x.into_iter().map(|y| y.to_u64()).collect::<Vec<u64>>();
    let primary = guarded(&format!("{who}.collect_range_at({a},{b})"), fails, || conv(v.collect_range_at(a, b)))?;
    if let Some(want) = want {
        if primary != want {
            let at = primary.iter().zip(want.iter()).position(|(x, y)| x != y).unwrap_or(primary.len().min(want.len()));
            fails.push(format!("C08: {who}.collect_range_at({a},{b}) returns {} elements, the reference {}; first difference at position {at}: {:?} vs {:?}", primary.len(), want.len(), primary.get(at), want.get(at)));
        }
    }
    if primary.len() > cap {
        fails.push(format!("C08: {who}.collect_range_at({a},{b}) returns {} elements, the writer's length leaves room for {cap}", primary.len()));
    }
    let mut check = |name: &str, got: Option<Vec<u64>>, fails: &mut Vec<String>| {
        if let Some(g) = got { if g != primary { fails.push(format!("C08: {who}.{name}({a},{b}) disagrees with collect_range_at: {} vs {} elements", g.len(), primary.len())); } }
    };
    let g = guarded(&format!("{who}.read_into_at({a},{b})"), fails, || { let mut p = vec![]; v.read_into_at(a, b, &mut p); conv(p) }); check("read_into_at", g, fails);
    let g = guarded(&format!("{who}.for_each_range_dyn_at({a},{b})"), fails, || { let mut p = vec![]; v.for_each_range_dyn_at(a, b, &mut |x| p.push(x)); conv(p) }); check("for_each_range_dyn_at", g, fails);
    let g = guarded(&format!("{who}.fold_range_at({a},{b})"), fails, || conv(v.fold_range_at(a, b, vec![], |mut acc: Vec<T>, x| { acc.push(x); acc }))); check("fold_range_at", g, fails);
    let g = guarded(&format!("{who}.try_fold_range_at({a},{b})"), fails, || { let r: Result<Vec<T>, ()> = v.try_fold_range_at(a, b, vec![], |mut acc: Vec<T>, x| { acc.push(x); Ok(acc) }); conv(r.unwrap()) }); check("try_fold_range_at", g, fails);
    let g = guarded(&format!("{who}.for_each_range_at({a},{b})"), fails, || { let mut p = vec![]; v.for_each_range_at(a, b, |x| p.push(x)); conv(p) }); check("for_each_range_at", g, fails);
    let g = guarded(&format!("{who}.try_for_each_range_at({a},{b})"), fails, || { let mut p = vec![]; let _: Result<(), ()> = v.try_for_each_range_at(a, b, |x| { p.push(x); Ok(()) }); conv(p) }); check("try_for_each_range_at", g, fails);
    let g = guarded(&format!("{who}.collect_range_dyn({a},{b})"), fails, || conv(v.collect_range_dyn(a, b))); check("collect_range_dyn", g, fails);
    if a < (1 << 62) && b < (1 << 62) {
        let g = guarded(&format!("{who}.collect_signed_range({a},{b})"), fails, || conv(v.collect_signed_range(Some(a as i64), Some(b as i64)))); check("collect_signed_range", g, fails);
    }
    // aggregates are folds of the same range
    if let Some(mn) = guarded(&format!("{who}.min_at({a},{b})"), fails, || v.min_at(a, b).map(|x| x.to_u64())) {
        let _ = mn; // order of T (floats by value) is not the order of bit patterns: compare presence only
        if mn.is_some() != !primary.is_empty() { fails.push(format!("C08: {who}.min_at({a},{b}) is {:?} for {} elements", mn, primary.len())); }
    }
    if let Some(mx) = guarded(&format!("{who}.max_at({a},{b})"), fails, || v.max_at(a, b).map(|x| x.to_u64())) {
        if mx.is_some() != !primary.is_empty() { fails.push(format!("C08: {who}.max_at({a},{b}) is {:?} for {} elements", mx, primary.len())); }
    }
    Some(primary)
}

/// index-addressed paths for one index
pub fn point_paths<T: Val + vecdb::VecValue, RV: ReadableVec<usize, T> + Sized>(v: &RV, who: &str, i: usize, want: Option<u64>, holes: bool, fails: &mut Vec<String>) -> Option<Option<u64>> {
    let got = guarded(&format!("{who}.collect_one_at({i})"), fails, || v.collect_one_at(i).map(|x| x.to_u64()))?;
    if got != want { fails.push(format!("C08: {who}.collect_one_at({i}) = {got:?}, the reference has {want:?}")); }
    // cursor and sorted reads address by index only when no slot is deleted
    if !holes {
        if let Some(c) = guarded(&format!("{who}.cursor().get({i})"), fails, || { let mut c = v.cursor(); c.get(i).map(|x| x.to_u64()) }) {
            if c != want { fails.push(format!("C08: {who}.cursor().get({i}) = {c:?}, the reference has {want:?}")); }
        }
    }
    Some(got)
}

/// cursor script and sorted read on a hole-free vector
pub fn cursor_and_sorted<T: Val + vecdb::VecValue, RV: ReadableVec<usize, T> + Sized>(v: &RV, who: &str, seed: u64, reference: &[Option<u64>], fails: &mut Vec<String>) {
    let len = reference.len();
    let flat: Vec<u64> = reference.iter().map(|x| x.unwrap_or(0)).collect();
    // sorted indices with duplicates and out-of-range entries
    let mut idx: Vec<usize> = (0..10).map(|j| (mix(seed ^ (0x5151 + j)) % (len as u64 + 3)) as usize).collect();
    idx.sort();
    if let Some(got) = guarded(&format!("{who}.read_sorted_at"), fails, || v.read_sorted_at(&idx).into_iter().map(|x| x.to_u64()).collect::<Vec<u64>>()) {
        let want: Vec<u64> = idx.iter().filter(|&&i| i < len).map(|&i| flat[i]).collect();
        if got != want { fails.push(format!("C08: {who}.read_sorted_at({idx:?}) = {:?}…, the reference gives {:?}…", &got[..got.len().min(6)], &want[..want.len().min(6)])); }
    }
    // cursor: advance / next / get / fold script
    let r = guarded(&format!("{who}.cursor script"), fails, || {
        let mut c = v.cursor();
        let mut out: Vec<(String, Option<u64>, Option<u64>)> = vec![];
        let mut pos = 0usize;
        for j in 0..16u64 {
            let m = mix(seed ^ (0xC0FFEE + j));
            match m % 4 {
                0 => { let n = ((m >> 8) % 5000) as usize; c.advance(n); pos = pos.saturating_add(n).min(len); }
                1 => { let got = c.next().map(|x| x.to_u64()); let want = flat.get(pos).copied(); if pos < len { pos += 1; } out.push(("next".into(), got, want)); }
                2 => { let i = ((m >> 8) % (len as u64 + 2)) as usize; let got = c.get(i).map(|x| x.to_u64()); out.push((format!("get({i})"), got, flat.get(i).copied())); }
                _ => {
                    let n = ((m >> 8) % 6000) as usize;
                    let mut acc = 0u64; let mut cnt = 0usize;
                    c.for_each(n, |x| { acc = acc.wrapping_add(x.to_u64()); cnt += 1; });
                    let end = pos.saturating_add(n).min(len);
                    let want_acc = flat[pos..end].iter().fold(0u64, |a, b| a.wrapping_add(*b));
                    out.push((format!("fold({n})@{pos}"), Some(acc.wrapping_add(cnt as u64)), Some(want_acc.wrapping_add((end - pos) as u64))));
                    pos = end;
                }
            }
            if c.position() != pos { out.push(("position".into(), Some(c.position() as u64), Some(pos as u64))); }
        }
        out
    });
    if let Some(out) = r {
        for (what, got, want) in out {
            if got != want { fails.push(format!("C08: {who}.cursor {what} = {got:?}, the reference gives {want:?}")); break; }
        }
    }
}

/// the whole battery; see module doc
#[allow(clippy::too_many_arguments)]
pub fn battery<T, RW, RO>(rw: &RW, ro: &RO, seed: u64, reference: &[Option<u64>], stored: usize, pp: usize, clone_ok: bool, fails: &mut Vec<String>,
    stored_scans: &dyn Fn(usize, usize) -> (Vec<u64>, Vec<u64>)) -> u64
where
    T: Val + vecdb::VecValue + PartialOrd,
    RW: ReadableVec<usize, T> + Sized,
    RO: ReadableVec<usize, T> + Sized,
{
    let len = reference.len();
    let holes = reference.iter().any(|x| x.is_none());
    let mut h = Fnv::new();
    for k in 0..N_RANGES {
        let a = pick(seed, 2 * k, len, stored, pp);
        let b = pick(seed, 2 * k + 1, len, stored, pp);
        let want = spec_range(reference, a, b);
        if let Some(p) = range_paths::<T, RW>(rw, "rw", a, b, &want, fails) {
            for v in &p { h.val(*v); }
        }
        h.byte(0xFF);
        if !clone_ok {
            // unwritten changes: the clone shows the stored prefix; its paths must agree and stay below the writer's length
            range_paths_with::<T, RO>(ro, "clone", a, b, None, b.min(len).saturating_sub(a), fails);
        }
        if clone_ok {
            range_paths::<T, RO>(ro, "clone", a, b, &want, fails);
            // stored-only scans (both back-ends) see the same stored elements
            if let Some((io, mm)) = guarded(&format!("fold_stored_io/mmap({a},{b})"), fails, || stored_scans(a, b)) {
                let w = spec_range(&reference[..stored.min(len)], a, b);
                if io != w { fails.push(format!("C08: fold_stored_io({a},{b}) returns {} elements, the reference {}", io.len(), w.len())); }
                if mm != w { fails.push(format!("C08: fold_stored_mmap({a},{b}) returns {} elements, the reference {}", mm.len(), w.len())); }
            }
        }
    }
    for k in 0..N_POINTS {
        let i = pick(seed, 100 + k, len, stored, pp);
        let want = reference.get(i).copied().flatten();
        match point_paths::<T, RW>(rw, "rw", i, want, holes, fails) {
            Some(Some(v)) => { h.byte(1); h.val(v); }
            _ => h.byte(0),
        }
        if clone_ok { point_paths::<T, RO>(ro, "clone", i, want, holes, fails); }
    }
    if !holes {
        cursor_and_sorted::<T, RW>(rw, "rw", seed, reference, fails);
        if clone_ok { cursor_and_sorted::<T, RO>(ro, "clone", seed, reference, fails); }
    }
    h.0
}
