mod common;
mod access;
mod rawdb_engine;
mod vec_engine;
mod compute_engine;
mod codec_engine;
mod import_engine;
mod lazy_engine;
mod read_paths;
mod crash_engine;
mod sched_engine;
mod openlock_engine;
mod dsched;
mod c10_engine;
mod c09_engine;

fn main() {
    let args = common::Args(std::env::args().skip(1).collect());
    let code = match args.0.first().map(|s| s.as_str()) {
        Some("rawdb") => rawdb_engine::main(&args),
        Some("vec") => vec_engine::main(&args),
        Some("compute") => compute_engine::main(&args),
        Some("codec") => codec_engine::main(&args),
        Some("import") => import_engine::main(&args),
        Some("lazy") => lazy_engine::main(&args),
        Some("crash") => crash_engine::main(&args),
        Some("sched") => sched_engine::main(&args),
        Some("openlock") => openlock_engine::main(&args),
        Some("c10") => c10_engine::main(&args),
        Some("c09") => c09_engine::main(&args),
        _ => {
            eprintln!("usage: harness <engine> …");
            2
        }
    };
    std::process::exit(code);
}
