//! vec_diff: drives real vecdb stored vectors (BytesVec, ZeroCopyVec, PcoVec, LZ4Vec, ZstdVec) with a
//! request stream, prints the canonical observation after every request (same format as
//! lean/Driver/VecProto.lean) and evaluates the model-free oracles:
//!   C03  reference vector (growable list of optional values + stamp), re-import = last written
//!   C04  stack of committed states; rollback = previous committed state; continuations
//!   C07  page-index well-formedness on the real page-index region + bit-exact contents
//!   C13  a refused request changes nothing observable
//!   C16  retention window; failed rollback leaves the vector unchanged

use std::{
    io::Write as _,
    panic::{AssertUnwindSafe, catch_unwind},
};

use rawdb::Database;
use vecdb::{
    AnyStoredVec, AnyVec, BytesVec, Error, ImportOptions, ImportableVec, LZ4Vec, PcoVec, ReadableVec, Stamp,
    Version, WritableVec, ZeroCopyVec, ZstdVec,
};

use crate::common::*;

pub trait Val: Copy + PartialEq + std::fmt::Debug + Send + Sync + 'static {
    const SZ: usize;
    fn from_u64(v: u64) -> Self;
    fn to_u64(self) -> u64;
}
macro_rules! int_val {
    ($($t:ty),*) => {$(impl Val for $t {
        const SZ: usize = std::mem::size_of::<$t>();
        fn from_u64(v: u64) -> Self { v as $t }
        fn to_u64(self) -> u64 { (self as u64) & (if Self::SZ >= 8 { u64::MAX } else { (1u64 << (8 * Self::SZ)) - 1 }) }
    })*};
}
int_val!(u8, u16, u32, u64, i64, i32, u128);
impl Val for [u8; 3] {
    const SZ: usize = 3;
    fn from_u64(v: u64) -> Self { [v as u8, (v >> 8) as u8, (v >> 16) as u8] }
    fn to_u64(self) -> u64 { self[0] as u64 | (self[1] as u64) << 8 | (self[2] as u64) << 16 }
}
impl Val for f64 {
    const SZ: usize = 8;
    fn from_u64(v: u64) -> Self { f64::from_bits(v) }
    fn to_u64(self) -> u64 { self.to_bits() }
}
impl Val for f32 {
    const SZ: usize = 4;
    fn from_u64(v: u64) -> Self { f32::from_bits(v as u32) }
    fn to_u64(self) -> u64 { self.to_bits() as u64 }
}

/// vector under test
pub trait Vut: Sized {
    type T: Val;
    const RAW: bool;
    fn open(db: &Database, name: &str, ver: u32, keep: u16, forced: bool) -> vecdb::Result<Self>;
    fn v_len(&self) -> usize;
    fn v_stored(&self) -> usize;
    fn v_real(&self) -> usize;
    fn v_stamp(&self) -> u64;
    fn v_push(&mut self, v: Self::T);
    fn v_cpush(&mut self, i: usize, v: Self::T) -> vecdb::Result<()>;
    fn v_truncate(&mut self, n: usize) -> vecdb::Result<()>;
    fn v_write(&mut self) -> vecdb::Result<bool>;
    fn v_flush(&mut self) -> vecdb::Result<bool>;
    fn v_swrite(&mut self, s: u64) -> vecdb::Result<()>;
    fn v_commit(&mut self, s: u64) -> vecdb::Result<()>;
    fn v_rollback(&mut self) -> vecdb::Result<()>;
    fn v_rollback_before(&mut self, s: u64) -> vecdb::Result<u64>;
    fn v_reset(&mut self) -> vecdb::Result<()>;
    fn v_reset_unsaved(&mut self);
    fn v_items(&self) -> Vec<Option<u64>>;
    fn v_holes(&self) -> Vec<usize>;
    fn v_region_names(&self) -> Vec<String>;
    fn v_data_len(&self) -> usize;
    /// C08: the whole read battery on the current state; returns the hash of the primary path's answers
    fn v_reads(&self, seed: u64, reference: &[Option<u64>], clone_ok: bool, fails: &mut Vec<String>) -> u64;
    /// stored-only scans through the file-IO and the mmap back-end
    fn v_stored_scans(&self, a: usize, b: usize) -> (Vec<u64>, Vec<u64>);
    fn v_dirty(&self) -> bool;
    /// C20: every read path of a read-only clone and both stored-only scan back-ends, in ANY state
    /// (values are not judged here, only the bytes touched)
    fn v_clone_reads(&self, seed: u64, len: usize);
    /// (start, current length) of the vector's regions
    fn v_region_extent(&self) -> (usize, usize);
    fn v_update(&mut self, _i: usize, _v: Self::T) -> vecdb::Result<()> { Err(Error::ExpectVecToHaveIndex) }
    fn v_delete(&mut self, _i: usize) {}
    fn v_take(&mut self, _i: usize) -> vecdb::Result<Option<Self::T>> { Ok(None) }
    fn v_fill(&mut self, _v: Self::T) -> vecdb::Result<usize> { Ok(0) }
}

macro_rules! common_impl {
    () => {
        fn open(db: &Database, name: &str, ver: u32, keep: u16, forced: bool) -> vecdb::Result<Self> {
            let mut o: ImportOptions = (db, name, Version::new(ver)).into();
            o = o.with_saved_stamped_changes(keep);
            if forced { Self::forced_import_with(o) } else { Self::import_with(o) }
        }
        fn v_len(&self) -> usize { self.len() }
        fn v_stored(&self) -> usize { self.stored_len() }
        fn v_real(&self) -> usize { self.real_stored_len() }
        fn v_stamp(&self) -> u64 { u64::from(self.stamp()) }
        fn v_push(&mut self, v: Self::T) { self.push(v) }
        fn v_cpush(&mut self, i: usize, v: Self::T) -> vecdb::Result<()> { self.checked_push_at(i, v) }
        fn v_truncate(&mut self, n: usize) -> vecdb::Result<()> { self.truncate_if_needed_at(n) }
        fn v_write(&mut self) -> vecdb::Result<bool> { self.write() }
        fn v_flush(&mut self) -> vecdb::Result<bool> { let b = self.write()?; if b { self.region().flush()?; } Ok(b) }
        fn v_swrite(&mut self, s: u64) -> vecdb::Result<()> { self.stamped_write(Stamp::new(s)) }
        fn v_commit(&mut self, s: u64) -> vecdb::Result<()> { self.stamped_write_with_changes(Stamp::new(s)) }
        fn v_rollback(&mut self) -> vecdb::Result<()> { self.rollback() }
        fn v_rollback_before(&mut self, s: u64) -> vecdb::Result<u64> { self.rollback_before(Stamp::new(s)).map(u64::from) }
        fn v_reset(&mut self) -> vecdb::Result<()> { self.reset() }
        fn v_reset_unsaved(&mut self) { self.reset_unsaved() }
        fn v_reads(&self, seed: u64, reference: &[Option<u64>], clone_ok: bool, fails: &mut Vec<String>) -> u64 {
            let ro = vecdb::StoredVec::read_only_clone(self);
            crate::read_paths::battery::<Self::T, _, _>(self, &ro, seed, reference, self.stored_len(), 16 * 1024 / <Self::T as Val>::SZ, clone_ok, fails,
                &|a, b| self.v_stored_scans(a, b))
        }
        fn v_stored_scans(&self, a: usize, b: usize) -> (Vec<u64>, Vec<u64>) {
            let io = self.fold_stored_io(a, b, vec![], |mut acc: Vec<u64>, x: Self::T| { acc.push(x.to_u64()); acc });
            let mm = self.fold_stored_mmap(a, b, vec![], |mut acc: Vec<u64>, x: Self::T| { acc.push(x.to_u64()); acc });
            (io, mm)
        }
        fn v_dirty(&self) -> bool { self.is_dirty() }
        fn v_clone_reads(&self, seed: u64, len: usize) {
            let ro = vecdb::StoredVec::read_only_clone(self);
            let stored = self.stored_len();
            let pp = 16 * 1024 / <Self::T as Val>::SZ;
            let mut sink: Vec<String> = vec![];
            // the whole vector, then ranges and points around the interesting boundaries
            crate::read_paths::range_paths::<Self::T, _>(&ro, "clone", 0, len.max(stored) + 1, &[], &mut sink);
            let _ = catch_unwind(AssertUnwindSafe(|| self.v_stored_scans(0, len.max(stored) + 1)));
            for k in 0..6u64 {
                let a = crate::read_paths::pick(seed, 2 * k, len, stored, pp);
                let b = crate::read_paths::pick(seed, 2 * k + 1, len, stored, pp);
                crate::read_paths::range_paths::<Self::T, _>(&ro, "clone", a, b, &[], &mut sink);
                let _ = catch_unwind(AssertUnwindSafe(|| self.v_stored_scans(a, b)));
                let i = crate::read_paths::pick(seed, 100 + k, len, stored, pp);
                crate::read_paths::point_paths::<Self::T, _>(&ro, "clone", i, None, false, &mut sink);
            }
            // … and around the end of what is physically in the region (it lies below the stored length after a rollback)
            let real = self.real_stored_len();
            for i in real.saturating_sub(2)..real + 6 {
                crate::read_paths::point_paths::<Self::T, _>(&ro, "clone", i, None, false, &mut sink);
            }
            let _ = catch_unwind(AssertUnwindSafe(|| {
                let idx: Vec<usize> = vec![0, stored.saturating_sub(1), stored, len.saturating_sub(1), len];
                let mut idx = idx; idx.sort();
                ro.read_sorted_at(&idx).len()
            }));
        }
        fn v_region_extent(&self) -> (usize, usize) { let m = self.region().meta(); (m.start(), m.len()) }
        fn v_region_names(&self) -> Vec<String> { self.region_names() }
        fn v_data_len(&self) -> usize { self.region().meta().len() }
    };
}

macro_rules! raw_vut {
    ($ty:ident, $t:ty) => {
        impl Vut for $ty<usize, $t> {
            type T = $t;
            const RAW: bool = true;
            common_impl!();
            fn v_items(&self) -> Vec<Option<u64>> {
                self.collect_holed().unwrap().into_iter().map(|o| o.map(|v| v.to_u64())).collect()
            }
            fn v_holes(&self) -> Vec<usize> { self.holes().iter().copied().collect() }
            fn v_update(&mut self, i: usize, v: $t) -> vecdb::Result<()> { self.update(i, v) }
            fn v_delete(&mut self, i: usize) { self.delete(i) }
            fn v_take(&mut self, i: usize) -> vecdb::Result<Option<$t>> {
                let r = self.create_reader();
                self.take(i, &r)
            }
            fn v_fill(&mut self, v: $t) -> vecdb::Result<usize> { self.fill_first_hole_or_push(v) }
        }
    };
}
macro_rules! comp_vut {
    ($ty:ident, $t:ty) => {
        impl Vut for $ty<usize, $t> {
            type T = $t;
            const RAW: bool = false;
            common_impl!();
            fn v_items(&self) -> Vec<Option<u64>> { self.collect().into_iter().map(|v| Some(v.to_u64())).collect() }
            fn v_holes(&self) -> Vec<usize> { vec![] }
        }
    };
}
raw_vut!(BytesVec, u64);
raw_vut!(BytesVec, u16);
raw_vut!(BytesVec, u128);
raw_vut!(BytesVec, f32);
raw_vut!(BytesVec, [u8; 3]);
raw_vut!(ZeroCopyVec, u32);
raw_vut!(ZeroCopyVec, u64);
comp_vut!(PcoVec, u64);
comp_vut!(PcoVec, u32);
comp_vut!(PcoVec, f64);
comp_vut!(PcoVec, i64);
comp_vut!(LZ4Vec, u64);
comp_vut!(LZ4Vec, u128);
comp_vut!(ZstdVec, u32);
comp_vut!(ZstdVec, u16);

pub const FORMATS: &[&str] = &[
    "bytes_u64", "pco_u64", "zc_u32", "lz4_u128", "bytes_u16", "pco_f64", "zstd_u32", "bytes_u128", "pco_u32", "zc_u64",
    "lz4_u64", "bytes_f32", "pco_i64", "zstd_u16", "bytes_a3",
];

pub fn err_name(e: &Error) -> String {
    match e {
        Error::RawDB(rawdb::Error::WriteOutOfBounds { .. }) => "WriteOutOfBounds".into(),
        Error::RawDB(rawdb::Error::TruncateInvalid { .. }) => "TruncateInvalid".into(),
        Error::RawDB(e) => format!("RawDB({})", crate::rawdb_engine::err_name(e)),
        Error::IndexTooHigh { .. } => "IndexTooHigh".into(),
        Error::UnexpectedIndex { .. } => "UnexpectedIndex".into(),
        Error::IO(_) => "IO".into(),
        Error::WrongLength { .. } => "WrongLength".into(),
        Error::Overflow => "Overflow".into(),
        Error::Underflow => "Underflow".into(),
        Error::StampMismatch { .. } => "StampMismatch".into(),
        Error::CorruptedRegion { .. } => "CorruptedRegion".into(),
        Error::ExpectVecToHaveIndex => "ExpectVecToHaveIndex".into(),
        Error::DifferentVersion { .. } => "DifferentVersion".into(),
        Error::DifferentFormat { .. } => "DifferentFormat".into(),
        other => format!("Other({})", format!("{other:?}").split(|c: char| !c.is_alphanumeric()).next().unwrap_or("")),
    }
}

/// splitmix-style value stream shared with the model (`VecM.mix` / `genVal`)
pub fn mix(x: u64) -> u64 {
    let x = x.wrapping_add(0x9E3779B97F4A7C15);
    let mut z = x;
    z = (z ^ (z >> 30)).wrapping_mul(0xBF58476D1CE4E5B9);
    z = (z ^ (z >> 27)).wrapping_mul(0x94D049BB133111EB);
    z ^ (z >> 31)
}
pub fn gen_val(sz: usize, seed: u64, k: u64) -> u64 {
    let m = mix(seed.wrapping_mul(1_000_003).wrapping_add(k));
    if sz >= 8 { m } else { m % (1u64 << (8 * sz)) }
}

/// reference model of C03/C04/C16 (independent of the Lean model)
#[derive(Clone, Default, Debug)]
pub struct RefVec {
    pub items: Vec<Option<u64>>,
    pub stamp: u64,
    pub written: Vec<Option<u64>>,
    pub written_stamp: u64,
    /// committed states, oldest first: (stamp, items)
    pub commits: Vec<(u64, Vec<Option<u64>>)>,
    /// the same stack as of the last successful commit (what a re-import sees)
    pub commits_at_write: Vec<(u64, Vec<Option<u64>>)>,
    /// stamps whose change record is retained
    pub retained: Vec<u64>,
    /// reference cannot follow any more (fault applied / known-divergent op)
    pub off: bool,
    /// a change record was damaged on purpose (C16 fault stream)
    pub faulted: bool,
    /// set by `fdel` / `ftrunc` (strict truncation), consumed by the very next request: that rollback must be refused
    pub must_refuse: Option<String>,
}

pub struct Engine<V: Vut> {
    dir: Option<tempfile::TempDir>,
    db: Option<Database>,
    vec: Option<V>,
    keep: u16,
    ver: u32,
    forced: bool,
    pub r: RefVec,
    tmp_root: std::path::PathBuf,
    last_obs: String,
}

fn nats<T: ToString>(xs: impl Iterator<Item = T>) -> String {
    xs.map(|x| x.to_string()).collect::<Vec<_>>().join(",")
}

impl<V: Vut> Engine<V> {
    pub fn new(tmp_root: &std::path::Path) -> Self {
        std::fs::create_dir_all(tmp_root).unwrap();
        Engine { dir: None, db: None, vec: None, keep: 0, ver: 1, forced: true, r: RefVec::default(), tmp_root: tmp_root.into(), last_obs: String::new() }
    }

    fn per_page() -> usize { 16 * 1024 / V::T::SZ }

    fn changes_dir(&self) -> Option<std::path::PathBuf> {
        let names = self.vec.as_ref()?.v_region_names();
        Some(self.db.as_ref()?.path().join("changes").join(&names[0]))
    }

    fn change_stamps(&self) -> Vec<u64> {
        let mut v: Vec<u64> = self
            .changes_dir()
            .and_then(|d| std::fs::read_dir(d).ok())
            .map(|rd| rd.filter_map(|e| e.ok()?.file_name().to_str()?.parse::<u64>().ok()).collect())
            .unwrap_or_default();
        v.sort();
        v
    }

    fn page_entries(&self) -> Vec<(u64, u32, u32, bool)> {
        if V::RAW { return vec![]; }
        let (Some(db), Some(vec)) = (self.db.as_ref(), self.vec.as_ref()) else { return vec![] };
        let names = vec.v_region_names();
        let Some(reg) = names.get(1).and_then(|n| db.get_region(n)) else { return vec![] };
        let bytes = reg.create_reader().read_all().to_vec();
        bytes
            .chunks(16)
            .filter(|c| c.len() == 16)
            .map(|c| {
                let start = u64::from_le_bytes(c[0..8].try_into().unwrap());
                let b = u32::from_le_bytes(c[8..12].try_into().unwrap());
                let v = u32::from_le_bytes(c[12..16].try_into().unwrap());
                (start, b, v & 0x7fff_ffff, v & 0x8000_0000 != 0)
            })
            .collect()
    }

    /// `out | L … | H … | I … | C … | P … | X 0`
    fn observe(&self, out: &str) -> String {
        let Some(vec) = self.vec.as_ref() else { return format!("{out} | closed") };
        let items = catch_unwind(AssertUnwindSafe(|| vec.v_items()));
        let istr = match &items {
            Ok(it) => {
                let mut h: u64 = 0xcbf29ce484222325;
                let mut feed = |b: u8| { h ^= b as u64; h = h.wrapping_mul(0x100000001b3); };
                for x in it {
                    match x {
                        None => feed(0),
                        Some(v) => { feed(1); for b in v.to_le_bytes() { feed(b); } }
                    }
                }
                let s = |o: &Option<u64>| o.map(|v| v.to_string()).unwrap_or("_".into());
                let head = it.iter().take(6).map(s).collect::<Vec<_>>().join(" ");
                let tail = it.iter().skip(it.len().saturating_sub(3)).map(s).collect::<Vec<_>>().join(" ");
                format!("{} {} [{}] [{}]", it.len(), h, head, tail)
            }
            Err(_) => "panic".to_string(),
        };
        let pages = if V::RAW {
            String::new()
        } else {
            let p = self.page_entries().iter().map(|(s, b, v, r)| format!("{s}:{b}:{v}:{}", if *r { "r" } else { "c" })).collect::<Vec<_>>().join(" ");
            format!("{p} D{}", vec.v_data_len())
        };
        format!(
            "{out} | L {} {} {} {} | H {} | I {} | C {} | P {} | X 0",
            vec.v_len(), vec.v_stored(), vec.v_real(), vec.v_stamp(), nats(vec.v_holes().into_iter()), istr, nats(self.change_stamps().into_iter()), pages
        )
    }

    /// C07: page index well-formedness, evaluated on the real page-index region
    fn check_pages(&self, fails: &mut Vec<String>) {
        if V::RAW { return; }
        let Some(vec) = self.vec.as_ref() else { return };
        let pages = self.page_entries();
        let pp = Self::per_page();
        let mut expect = 32u64;
        let mut total = 0usize;
        for (i, (s, b, v, raw)) in pages.iter().enumerate() {
            if *s != expect { fails.push(format!("C07: page {i} starts at {s}, expected {expect} (gap or overlap)")); break; }
            expect = s + *b as u64;
            total += *v as usize;
            let last = i + 1 == pages.len();
            if !last && (*v as usize != pp || *raw) { fails.push(format!("C07: inner page {i} has {v} values raw={raw} (per page {pp})")); }
            if last && (*v == 0 || *v as usize > pp) { fails.push(format!("C07: last page has {v} values")); }
            if last && (*raw != ((*v as usize) < pp)) { fails.push(format!("C07: last page raw={raw} with {v} values of {pp}")); }
            if *raw && *b as usize != *v as usize * V::T::SZ { fails.push(format!("C07: raw page {i} has {b} bytes for {v} values")); }
        }
        if total != vec.v_real() { fails.push(format!("C07: page value counts add up to {total}, real_stored_len {}", vec.v_real())); }
        if vec.v_data_len() as u64 != expect { fails.push(format!("C07: data region ends at {}, last page ends at {expect}", vec.v_data_len())); }
    }

    fn reopen_db(&mut self) {
        self.vec = None;
        if let Some(db) = self.db.take() {
            let _ = db.flush();
            let p = db.path().to_path_buf();
            drop(db);
            self.db = Some(Database::open(&p).unwrap());
        }
    }

    pub fn exec(&mut self, line: &str) -> (String, String) {
        let ws: Vec<&str> = line.split_whitespace().collect();
        if ws.first() == Some(&"case") {
            self.vec = None;
            self.db = None;
            self.dir = None;
            let kv = |k: &str, d: u64| ws.iter().find_map(|w| w.strip_prefix(&format!("{k}="))).and_then(|v| v.parse().ok()).unwrap_or(d);
            self.keep = kv("keep", 0) as u16;
            self.ver = 1;
            self.forced = kv("forced", 1) == 1;
            let dir = tempfile::tempdir_in(&self.tmp_root).unwrap();
            let db = Database::open(dir.path()).unwrap();
            self.vec = Some(V::open(&db, "v", self.ver, self.keep, self.forced).unwrap());
            self.db = Some(db);
            self.dir = Some(dir);
            self.r = RefVec::default();
            self.r.commits.push((0, vec![]));
            self.last_obs = self.observe("ok");
            return (line.to_string(), line.to_string());
        }
        if self.vec.is_none() { return (line.to_string(), "skipped".into()); }
        crate::access::begin();
        let before = self.last_obs.clone();
        let spi_before = self.vec.as_ref().map(|v| v.v_stored() / Self::per_page()).unwrap_or(0);
        let num = |i: usize| ws.get(i).and_then(|s| s.parse::<u64>().ok()).unwrap_or(0);
        let mut fails: Vec<String> = vec![];
        let mut is_write = false;
        let res: std::thread::Result<Result<String, Error>> = {
            let this = &mut *self;
            catch_unwind(AssertUnwindSafe(|| -> Result<String, Error> {
                let vec = this.vec.as_mut().unwrap();
                let r = &mut this.r;
                match ws[0] {
                    "push" => { vec.v_push(V::T::from_u64(num(1))); r.items.push(Some(num(1))); Ok("ok".into()) }
                    "pushn" => {
                        for k in 0..num(1) { let v = gen_val(V::T::SZ, num(2), k); vec.v_push(V::T::from_u64(v)); r.items.push(Some(v)); }
                        Ok("ok".into())
                    }
                    "truncate" => { vec.v_truncate(num(1) as usize)?; r.items.truncate(num(1) as usize); Ok("ok".into()) }
                    "update" => {
                        let i = num(1) as usize;
                        let res = vec.v_update(i, V::T::from_u64(num(2)));
                        if res.is_ok() {
                            if i < r.items.len() { r.items[i] = Some(num(2)); } else { fails.push(format!("C03: update at {i} accepted beyond len {}", r.items.len())); }
                        } else if i < r.items.len() { fails.push(format!("C03: update at {i} refused below len {}", r.items.len())); }
                        res.map(|_| "ok".into())
                    }
                    "delete" => { let i = num(1) as usize; vec.v_delete(i); if i < r.items.len() { r.items[i] = None; } Ok("ok".into()) }
                    "take" => {
                        let i = num(1) as usize;
                        let got = vec.v_take(i)?.map(|v| v.to_u64());
                        let want = r.items.get(i).copied().flatten();
                        if got != want { fails.push(format!("C03: take({i}) returned {got:?}, reference {want:?}")); }
                        if i < r.items.len() { r.items[i] = None; }
                        Ok(match got { Some(v) => format!("ok:some:{v}"), None => "ok:none".into() })
                    }
                    "fill" => {
                        let idx = vec.v_fill(V::T::from_u64(num(1)))?;
                        let want = r.items.iter().position(|x| x.is_none()).unwrap_or(r.items.len());
                        if idx != want { fails.push(format!("C03: fill placed at {idx}, reference {want}")); }
                        if want < r.items.len() { r.items[want] = Some(num(1)); } else { r.items.push(Some(num(1))); }
                        Ok(format!("ok:{idx}"))
                    }
                    "cpush" => {
                        let i = num(1) as usize;
                        let res = vec.v_cpush(i, V::T::from_u64(num(2)));
                        if res.is_ok() != (i == r.items.len()) { fails.push(format!("C13: checked push at {i} with len {} gave {:?}", r.items.len(), res.is_ok())); }
                        if res.is_ok() { r.items.push(Some(num(2))); }
                        res.map(|_| "ok".into())
                    }
                    "write" | "flush" => {
                        is_write = true;
                        let b = if ws[0] == "flush" { vec.v_flush() } else { vec.v_write() };
                        // the header is written even when nothing else is
                        r.written_stamp = r.stamp;
                        let b = b?;
                        r.written = r.items.clone();
                        Ok(format!("ok:{b}"))
                    }
                    "swrite" => {
                        is_write = true;
                        r.stamp = num(1);
                        r.written_stamp = r.stamp;
                        vec.v_swrite(num(1))?;
                        r.written = r.items.clone();
                        Ok("ok".into())
                    }
                    "commit" => {
                        is_write = true;
                        let s = num(1);
                        r.stamp = s;
                        r.written_stamp = s;
                        vec.v_commit(s)?;
                        r.written = r.items.clone();
                        r.commits.push((s, r.items.clone()));
                        r.commits_at_write = r.commits.clone();
                        if this.keep > 0 {
                            r.retained.retain(|&x| x < s);
                            let k = this.keep as usize - 1;
                            if r.retained.len() > k { let d = r.retained.len() - k; r.retained.drain(0..d); }
                            r.retained.push(s);
                        }
                        Ok("ok".into())
                    }
                    "rollback" => {
                        let res = vec.v_rollback();
                        let can = r.retained.contains(&r.stamp) && r.commits.len() >= 2 && r.commits.last().map(|c| c.0) == Some(r.stamp);
                        if !r.off {
                            if res.is_ok() && !can { fails.push(format!("C16: rollback from stamp {} succeeded outside the retention window (retained {:?})", r.stamp, r.retained)); }
                            if res.is_err() && can { fails.push(format!("C04: rollback from stamp {} failed although its record is retained: {}", r.stamp, err_name(res.as_ref().err().unwrap()))); }
                        }
                        if res.is_ok() {
                            // the record stays on disk until a later commit drops it
                            if r.commits.len() >= 2 { r.commits.pop(); }
                            let (s, it) = r.commits.last().cloned().unwrap();
                            r.stamp = s;
                            r.items = it;
                        }
                        res.map(|_| "ok".into())
                    }
                    "rollback_before" => {
                        let target = num(1);
                        let res = vec.v_rollback_before(target);
                        // reference: undo while stamp >= target and the record is retained
                        match res {
                            Ok(s) => {
                                while r.stamp >= target && r.retained.contains(&r.stamp) && r.commits.len() >= 2 {
                                    r.commits.pop();
                                    let (s, it) = r.commits.last().cloned().unwrap();
                                    r.stamp = s;
                                    r.items = it;
                                }
                                Ok(format!("ok:{s}"))
                            }
                            Err(e) => {
                                // C16: a failed rollback_before rests on a committed state it passed through
                                let at = vec.v_stamp();
                                while r.commits.len() >= 2 && r.commits.last().map(|c| c.0 > at).unwrap_or(false) { r.commits.pop(); }
                                match r.commits.last().cloned() {
                                    Some((s, it)) if s == at => {
                                        r.stamp = s;
                                        r.items = it;
                                        if !r.off {
                                            let items = vec.v_items();
                                            if items != r.items { fails.push(format!("C16: failed rollback_before rests at stamp {at} with contents that were not committed (len {} vs {})", items.len(), r.items.len())); }
                                        }
                                    }
                                    _ => { if !r.off { fails.push(format!("C16: failed rollback_before rests at stamp {at}, not a committed state it passed through")); } r.off = true; }
                                }
                                Err(e)
                            }
                        }
                    }
                    "reset" => {
                        vec.v_reset()?;
                        r.items.clear();
                        r.stamp = 0;
                        r.commits = vec![(0, vec![])];
                        r.retained.clear();
                        Ok("ok".into())
                    }
                    "reset_unsaved" => { vec.v_reset_unsaved(); r.off = true; Ok("ok".into()) }
                    "reads" => {
                        if r.off { Ok("ok:skipped".into()) } else {
                            // read-only clones and stored-only scans see what is stored: comparable on clean states
                            let clone_ok = !vec.v_dirty() && vec.v_real() == vec.v_stored() && vec.v_stored() == r.items.len();
                            let h = vec.v_reads(num(1), &r.items, clone_ok, &mut fails);
                            Ok(format!("ok:{h}"))
                        }
                    }
                    "clonereads" => { vec.v_clone_reads(num(1), r.items.len()); Ok("ok".into()) }
                    _ => Ok("bad-op".into()),
                }
            }))
        };
        // operations that replace the vector or touch files
        let res = match ws[0] {
            "reimport" => {
                let with_db = num(1) == 1;
                self.vec = None;
                if with_db { self.reopen_db(); }
                let db = self.db.as_ref().unwrap();
                match catch_unwind(AssertUnwindSafe(|| V::open(db, "v", self.ver, self.keep, self.forced))) {
                    Ok(Ok(v)) => {
                        self.vec = Some(v);
                        self.r.items = self.r.written.clone();
                        self.r.stamp = self.r.written_stamp;
                        // a rollback that was never written is forgotten: the state on disk is
                        // the newest committed one again, with the history it had then
                        if !self.r.commits_at_write.is_empty() {
                            self.r.commits = self.r.commits_at_write.clone();
                        }
                        // rollback records survive on disk but the in-memory previous state is rebuilt
                        Ok(Ok("ok".to_string()))
                    }
                    Ok(Err(e)) => Ok(Err(e)),
                    Err(p) => Err(p),
                }
            }
            "fdel" | "ftrunc" | "fpatch" => {
                self.r.off = true;
                self.r.faulted = true;
                if let Some(d) = self.changes_dir() {
                    let p = d.join(num(1).to_string());
                    match ws[0] {
                        "fdel" => { let _ = std::fs::remove_file(&p); self.r.retained.retain(|&x| x != num(1)); self.r.must_refuse = Some(format!("the record of stamp {} was deleted", num(1))); }
                        "ftrunc" => { if let Ok(b) = std::fs::read(&p) { let n = (num(2) as usize).min(b.len()); let _ = std::fs::write(&p, &b[..n]);
                            if n < b.len() { self.r.must_refuse = Some(format!("the record of stamp {} was truncated to {n} of {} bytes", num(1), b.len())); } } }
                        _ => {
                            if let Ok(mut b) = std::fs::read(&p) {
                                let off = num(2) as usize;
                                let pb = num(3).to_le_bytes();
                                // same semantics as the model's patchBytes: splice 8 bytes at off
                                let mut nb = b[..off.min(b.len())].to_vec();
                                nb.extend_from_slice(&pb);
                                if off + 8 < b.len() { nb.extend_from_slice(&b[off + 8..]); }
                                b = nb;
                                let _ = std::fs::write(&p, &b);
                            }
                        }
                    }
                }
                Ok(Ok("ok".to_string()))
            }
            _ => res,
        };
        let out = match &res {
            Ok(Ok(s)) => s.clone(),
            Ok(Err(e)) => format!("err:{}", err_name(e)),
            Err(_) => "panic".to_string(),
        };
        // rewrite the request with the compressor's answers (sizes of the compressed pages written)
        let mut line_out = line.to_string();
        if is_write {
            let cs: Vec<String> = if !V::RAW && out.starts_with("ok") {
                self.page_entries().iter().enumerate().filter(|(i, p)| *i >= spi_before && !p.3).map(|(_, p)| p.1.to_string()).collect()
            } else { vec![] };
            let csw = if cs.is_empty() { "-".to_string() } else { cs.join(",") };
            line_out = match ws[0] {
                "write" | "flush" => format!("{} {csw}", ws[0]),
                _ => format!("{} {} {csw}", ws[0], ws[1]),
            };
        }
        let mut obs = self.observe(&out);
        // C20: every access recorded during this request (and the observation above) against its region
        if let (Some(vec), Some(db)) = (self.vec.as_ref(), self.db.as_ref()) {
            let (ds, dl) = vec.v_region_extent();
            let mut regs = vec![("data", ds, dl)];
            if let Some(pr) = vec.v_region_names().get(1).and_then(|n| db.get_region(n)) {
                let m = pr.meta();
                regs.push(("pages", m.start(), m.len()));
            }
            let (v, _n) = crate::access::violations(&regs, db.file_len(), matches!(ws[0], "reads" | "clonereads"));
            if !v.is_empty() {
                obs = obs.replace("| X 0", "| X 1");
                for m in v.iter().take(2) { fails.push(format!("C20: `{}`: {m}", ws[0])); }
            }
        }
        // ---- oracles -------------------------------------------------------------------------
        if let Some(vec) = self.vec.as_ref() {
            if out == "panic" { fails.push("panic".into()); }
            if !self.r.off && obs.contains("| I panic |") { fails.push(format!("C04: reading the contents panics after `{}` (stored_len {} > real_stored_len {})", ws[0], vec.v_stored(), vec.v_real())); }
            // C16: a rollback whose change record is missing or truncated fails with an error
            if !matches!(ws[0], "fdel" | "ftrunc" | "fpatch") {
                if let Some(why) = self.r.must_refuse.take() {
                    // (`rollback_before` walks the records that exist: with the newest one gone it stops at the current committed
                    // state and answers Ok — the single `rollback` is the call that must refuse)
                    if ws[0] == "rollback" && out.starts_with("ok") {
                        fails.push(format!("C16: `{}` succeeded although {why}", ws[0]));
                    }
                }
            }
            if self.r.faulted && matches!(ws[0], "rollback" | "rollback_before") && out.starts_with("ok") {
                // C16: whatever a rollback over a damaged record does, it never invents contents
                if let Ok(items) = catch_unwind(AssertUnwindSafe(|| vec.v_items())) {
                    if !self.r.commits.iter().any(|c| c.1 == items) {
                        fails.push(format!("C16: rollback over a damaged record succeeded with contents that were never committed (len {}, stamp {})", items.len(), vec.v_stamp()));
                    }
                }
            }
            if !self.r.off && out.starts_with("ok") {
                if let Ok(items) = catch_unwind(AssertUnwindSafe(|| vec.v_items())) {
                    let tag = if matches!(ws[0], "rollback" | "rollback_before" | "commit") || self.r.commits.len() > 1 { "C04" } else { "C03" };
                    if items != self.r.items {
                        let at = items.iter().zip(self.r.items.iter()).position(|(a, b)| a != b).unwrap_or(items.len().min(self.r.items.len()));
                        fails.push(format!("{tag}: contents differ from the reference after `{}`: len {} vs {}, first difference at {at}: {:?} vs {:?}",
                            ws[0], items.len(), self.r.items.len(), items.get(at), self.r.items.get(at)));
                    }
                    if vec.v_stamp() != self.r.stamp { fails.push(format!("{tag}: stamp {} differs from the reference {}", vec.v_stamp(), self.r.stamp)); }
                    let holes: Vec<usize> = self.r.items.iter().enumerate().filter(|(_, x)| x.is_none()).map(|(i, _)| i).collect();
                    if V::RAW && vec.v_holes() != holes && items == self.r.items { fails.push(format!("{tag}: deleted slots {:?} differ from the reference {:?}", vec.v_holes(), holes)); }
                }
            }
            if out.starts_with("err:") && !matches!(ws[0], "fdel" | "ftrunc" | "fpatch") {
                let strip = |s: &str| s.splitn(2, " | ").nth(1).unwrap_or("").to_string();
                let refusal = matches!(out.as_str(), "err:UnexpectedIndex" | "err:IndexTooHigh" | "err:IO" | "err:WrongLength" | "err:Overflow" | "err:Underflow" | "err:StampMismatch" | "err:WriteOutOfBounds" | "err:CorruptedRegion");
                if refusal && ws[0] != "rollback_before" && strip(&before) != strip(&obs) {
                    fails.push(format!("C13: `{}` returned {out} but the observable state changed: before [{}] after [{}]", ws[0], strip(&before), strip(&obs)));
                }
            }
            if is_write && out.starts_with("ok") { self.check_pages(&mut fails); }
        }
        self.last_obs = obs.clone();
        let o = if fails.is_empty() { "ok".to_string() } else { format!("fail:{}", fails.join("; ")) };
        (line_out, format!("{obs} | O {o}"))
    }
}

// ------------------------------------------------------------------------------------------------
// generator

pub struct Gen {
    pub rng: Rng,
    pub mode: String,
    pub raw: bool,
    pub sz: usize,
    pub next_stamp: u64,
    pub since_commit: bool,
    pub pending_fault: bool,
    pub reads: bool,
    pub access: bool,
}

impl Gen {
    fn val(&mut self) -> u64 {
        let bits = 8 * self.sz.min(8);
        let m = if bits == 64 { u64::MAX } else { (1u64 << bits) - 1 };
        match self.rng.below(10) {
            0 => 0,
            1 => m,
            2 => m >> 1,
            3 => (m >> 1) + 1,
            4 => self.rng.below(10),
            _ => self.rng.next() & m,
        }
    }
    fn idx(&mut self, len: usize, stored: usize) -> usize {
        match self.rng.below(6) {
            0 => 0,
            1 => len.saturating_sub(1),
            2 => stored.saturating_sub(1),
            3 => stored.min(len.saturating_sub(1)),
            _ => self.rng.below(len.max(1) as u64) as usize,
        }
    }
    fn bulk(&mut self) -> usize {
        let pp = 16 * 1024 / self.sz;
        match self.rng.below(9) {
            0 => pp - 1,
            1 => pp,
            2 => pp + 1,
            3 => 2 * pp + 3,
            4 => pp / 2,
            5 => 3,
            _ => 1 + self.rng.below(40) as usize,
        }
    }

    pub fn next<V: Vut>(&mut self, eng: &Engine<V>) -> String {
        let len = eng.r.items.len();
        let stored = eng.vec.as_ref().map(|v| v.v_stored()).unwrap_or(0);
        let pp = 16 * 1024 / self.sz;
        let r = &mut self.rng;
        let expanded = eng.vec.as_ref().map(|v| v.v_stored() > v.v_real()).unwrap_or(false);
        if self.access && !self.pending_fault && (r.chance(1, 6) || (expanded && r.chance(1, 2))) {
            return format!("clonereads {}", r.below(1 << 40));
        }
        if self.reads && len > 0 && !self.pending_fault && r.chance(1, 5) {
            return format!("reads {}", r.below(1 << 40));
        }
        match self.mode.as_str() {
            // stored ranges larger than the 512 KiB buffer of the file-IO scan: the refill path of the stored-only sources
            "bigscan" => {
                if len == 0 {
                    let n = (600_000 + r.below(900_000) as usize) / self.sz;
                    return format!("pushn {} {}", n, r.below(1 << 30));
                }
                if stored < len {
                    return "write".to_string();
                }
                match r.below(5) {
                    0 => format!("truncate {}", r.below(len as u64 + 1)),
                    1 => format!("pushn {} {}", 1 + r.below(3000), r.below(1 << 30)),
                    _ => format!("reads {}", r.below(1 << 40)),
                }
            }
            "plain" | "refusals" => {
                if self.mode == "refusals" && r.chance(1, 4) {
                    return match r.below(4) {
                        0 => format!("cpush {} {}", len + 1 + r.below(3) as usize, r.below(100)),
                        1 if len > 0 => format!("cpush {} {}", len - 1, r.below(100)),
                        2 if self.raw => format!("update {} {}", len + r.below(3) as usize, r.below(100)),
                        _ => "rollback".to_string(),
                    };
                }
                // push pushn truncate update delete take fill write flush reset reimport cpush swrite
                // (swrite = stamped_write: the stamp is part of what C03 compares, also when nothing else is pending)
                let mut w = [22u32, 12, 10, 9, 6, 3, 4, 16, 4, 1, 6, 2, 5];
                if !self.raw { w[3] = 0; w[4] = 0; w[5] = 0; w[6] = 0; w[1] = 20; }
                if len == 0 { w[2] = 1; w[3] = 0; w[4] = 0; w[5] = 0; }
                if len > 6 * pp { w[1] = 0; w[0] = 5; w[2] = 30; }
                match r.weighted(&w) {
                    0 => format!("push {}", self.val()),
                    1 => format!("pushn {} {}", self.bulk(), self.rng.below(1 << 30)),
                    2 => {
                        let t = match r.below(7) {
                            0 => 0,
                            1 => stored,
                            2 => stored.saturating_sub(1),
                            3 => (len / pp) * pp,
                            4 => ((len / pp) * pp).saturating_sub(1),
                            5 => len + 1,
                            _ => r.below(len as u64 + 1) as usize,
                        };
                        format!("truncate {t}")
                    }
                    3 => { let i = self.idx(len, stored); format!("update {i} {}", self.val()) }
                    // now and then at or just beyond the end: a no-op that must stay one
                    4 => { let l = if self.rng.chance(1, 4) { len + 2 } else { len }; format!("delete {}", self.idx(l, stored)) }
                    5 => format!("take {}", self.idx(len + 1, stored)),
                    6 => format!("fill {}", self.val()),
                    7 => "write".into(),
                    8 => "flush".into(),
                    9 => "reset".into(),
                    10 => format!("reimport {}", r.below(2)),
                    12 => format!("swrite {}", 1 + r.below(1 << 20)),
                    _ => format!("cpush {} {}", len, self.val()),
                }
            }
            _ => {
                // rollback / faults streams: edits, commit, …, rollback(s), continuations
                let can_rb = !self.since_commit && eng.r.commits.len() >= 2;
                if self.pending_fault {
                    self.pending_fault = false;
                    return if r.chance(3, 4) { "rollback".into() } else { format!("rollback_before {}", eng.r.stamp) };
                }
                if self.mode == "faults" && can_rb && !eng.r.faulted && r.chance(1, 3) {
                    // damage the record the next rollback will read
                    let cur = eng.r.stamp;
                    let flen = eng.changes_dir().and_then(|d| std::fs::metadata(d.join(cur.to_string())).ok()).map(|m| m.len()).unwrap_or(0);
                    if flen > 0 {
                        self.pending_fault = true;
                        return match r.below(6) {
                            0 => format!("fdel {cur}"),
                            1 | 2 => {
                                let n = match r.below(4) { 0 => 0, 1 => flen - 1, 2 => 31.min(flen - 1), _ => r.below(flen) };
                                format!("ftrunc {cur} {n}")
                            }
                            _ => {
                                // only the length fields of the record are damaged (the fault model of C16):
                                // prev_stored_len, stored_len, truncated count, prev_pushed count, pushed count
                                let bytes = eng.changes_dir().and_then(|d| std::fs::read(d.join(cur.to_string())).ok()).unwrap_or_default();
                                let u = |o: usize| bytes.get(o..o + 8).map(|b| u64::from_le_bytes(b.try_into().unwrap()) as usize).unwrap_or(0);
                                let mut offs = vec![8usize, 16, 24];
                                let off1 = 32 + u(24).saturating_mul(self.sz);
                                if off1 + 8 <= bytes.len() {
                                    offs.push(off1);
                                    let off2 = off1 + 8 + u(off1).saturating_mul(self.sz);
                                    if off2 + 8 <= bytes.len() { offs.push(off2); }
                                }
                                let off = *r.pick(&offs);
                                // out-of-range values (larger than any length this vector ever had)
                                let v = *r.pick(&[1u64 << 32, 1 << 63, u64::MAX, 1 << 40, (1 << 32) - 1, u64::MAX / 16, len as u64 + 100_000]);
                                format!("fpatch {cur} {off} {v}")
                            }
                        };
                    }
                }
                // push pushn truncate update delete commit rollback rollback_before reimport fill
                let mut w = [20u32, 8, 10, 8, 5, 18, 0, 0, 2, 2];
                if !self.raw { w[3] = 0; w[4] = 0; w[9] = 0; w[1] = 12; }
                if len == 0 { w[2] = 0; w[3] = 0; w[4] = 0; }
                if can_rb { w[6] = 22; w[7] = 6; }
                if len > 4 * pp { w[1] = 0; w[2] = 25; }
                let c = r.weighted(&w);
                if c != 5 && c != 6 && c != 7 { self.since_commit = true; }
                match c {
                    0 => format!("push {}", self.val()),
                    1 => format!("pushn {} {}", self.bulk(), self.rng.below(1 << 30)),
                    2 => {
                        let t = match r.below(5) {
                            0 => 0,
                            1 => stored.saturating_sub(1),
                            2 => stored / 2,
                            3 => (len / pp) * pp,
                            _ => r.below(len as u64 + 1) as usize,
                        };
                        format!("truncate {t}")
                    }
                    3 => { let i = self.idx(len, stored); format!("update {i} {}", self.val()) }
                    // now and then at or just beyond the end: a no-op that must stay one
                    4 => { let l = if self.rng.chance(1, 4) { len + 2 } else { len }; format!("delete {}", self.idx(l, stored)) }
                    5 => {
                        self.since_commit = false;
                        let s = eng.r.stamp + 1 + if r.chance(1, 5) { r.below(3) } else { 0 };
                        self.next_stamp = s + 1;
                        format!("commit {s}")
                    }
                    6 => "rollback".into(),
                    7 => format!("rollback_before {}", eng.r.stamp.saturating_sub(r.below(3))),
                    8 => { self.since_commit = false; format!("reimport {}", r.below(2)) }
                    _ => format!("fill {}", self.val()),
                }
            }
        }
    }
}

fn run_format<V: Vut>(args: &Args, fmt: &str, cases: &[u64]) -> (Vec<String>, Vec<String>) {
    let tmp = std::path::PathBuf::from(args.get("--tmp").unwrap_or("/verif/.cache/tmp"));
    let seed = args.num("--seed", 1);
    let len = args.num("--len", 40);
    let mode = args.get("--mode").unwrap_or("plain").to_string();
    let mut ops = vec![];
    let mut obs = vec![];
    let mut eng = Engine::<V>::new(&tmp);
    for &case_no in cases {
        let mut g = Gen { rng: Rng::new(seed.wrapping_mul(1_000_003).wrapping_add(case_no).wrapping_mul(31)), mode: mode.clone(), raw: V::RAW, sz: V::T::SZ, next_stamp: 1, since_commit: true, pending_fault: false, reads: args.flag("--reads"), access: args.flag("--access") };
        let keep = if mode == "plain" || mode == "refusals" || mode == "bigscan" { 0 } else { *g.rng.pick(&[1u64, 2, 3, 3, 10]) };
        let line = format!("case {case_no} kind={} sz={} keep={keep} fmt={fmt} forced={}", if V::RAW { "raw" } else { "comp" }, V::T::SZ, g.rng.below(2));
        let (l, o) = eng.exec(&line);
        ops.push(l);
        obs.push(o);
        let n_ops = len / 2 + g.rng.below(len + 1);
        for _ in 0..n_ops {
            let line = g.next(&eng);
            if std::env::var_os("VERIF_TRACE").is_some() { eprintln!("{line}"); }
            let (l, o) = eng.exec(&line);
            let stop = o.starts_with("panic") || o.contains("| closed");
            ops.push(l);
            obs.push(o);
            if stop { break; }
        }
    }
    (ops, obs)
}

pub fn dispatch<R>(fmt: &str, f: &mut dyn FnMut(&str) -> R) -> R {
    f(fmt)
}

macro_rules! by_format {
    ($fmt:expr, $fun:ident, $($arg:expr),*) => {
        match $fmt {
            "bytes_u64" => $fun::<BytesVec<usize, u64>>($($arg),*),
            "bytes_u16" => $fun::<BytesVec<usize, u16>>($($arg),*),
            "bytes_u128" => $fun::<BytesVec<usize, u128>>($($arg),*),
            "bytes_f32" => $fun::<BytesVec<usize, f32>>($($arg),*),
            "bytes_a3" => $fun::<BytesVec<usize, [u8; 3]>>($($arg),*),
            "zc_u32" => $fun::<ZeroCopyVec<usize, u32>>($($arg),*),
            "zc_u64" => $fun::<ZeroCopyVec<usize, u64>>($($arg),*),
            "pco_u64" => $fun::<PcoVec<usize, u64>>($($arg),*),
            "pco_u32" => $fun::<PcoVec<usize, u32>>($($arg),*),
            "pco_f64" => $fun::<PcoVec<usize, f64>>($($arg),*),
            "pco_i64" => $fun::<PcoVec<usize, i64>>($($arg),*),
            "lz4_u64" => $fun::<LZ4Vec<usize, u64>>($($arg),*),
            "lz4_u128" => $fun::<LZ4Vec<usize, u128>>($($arg),*),
            "zstd_u32" => $fun::<ZstdVec<usize, u32>>($($arg),*),
            "zstd_u16" => $fun::<ZstdVec<usize, u16>>($($arg),*),
            other => panic!("unknown format {other}"),
        }
    };
}

fn replay_format<V: Vut>(tmp: &std::path::Path, lines: &[String]) -> (Vec<String>, Vec<String>) {
    let mut eng = Engine::<V>::new(tmp);
    let mut ops = vec![];
    let mut obs = vec![];
    let mut closed = false;
    for l in lines {
        if closed { ops.push(l.clone()); obs.push("skipped".into()); continue; }
        let (lo, o) = eng.exec(l);
        if o.starts_with("panic") || o.contains("| closed") { closed = true; }
        ops.push(lo);
        obs.push(o);
    }
    (ops, obs)
}

fn fmt_of(case_line: &str) -> String {
    case_line.split_whitespace().find_map(|w| w.strip_prefix("fmt=")).unwrap_or("bytes_u64").to_string()
}

/// `harness vec gen|run …`
pub fn main(args: &Args) -> i32 {
    quiet_panics();
    if args.flag("--access") { crate::access::install(); }
    let tmp = std::path::PathBuf::from(args.get("--tmp").unwrap_or("/verif/.cache/tmp"));
    let mode = args.0.get(1).map(|s| s.as_str()).unwrap_or("");
    match mode {
        "gen" => {
            let cases = args.num("--cases", 10);
            let first = args.num("--first-case", 0);
            let only = args.get("--format");
            let mut ops_out = std::io::BufWriter::new(std::fs::File::create(args.get("--ops").unwrap()).unwrap());
            let mut impl_out = std::io::BufWriter::new(std::fs::File::create(args.get("--out").unwrap()).unwrap());
            for c in first..first + cases {
                let fmt = only.unwrap_or(FORMATS[(c as usize) % FORMATS.len()]);
                let (ops, obs) = by_format!(fmt, run_format, args, fmt, &[c]);
                for l in ops { writeln!(ops_out, "{l}").unwrap(); }
                for l in obs { writeln!(impl_out, "{l}").unwrap(); }
            }
            0
        }
        "run" => {
            let path = args.get("--ops").unwrap();
            let text = std::fs::read_to_string(path).unwrap();
            let lines: Vec<String> = text.lines().map(|s| s.to_string()).collect();
            // split into cases (each case carries its format)
            let mut all_ops = vec![];
            let mut i = 0;
            while i < lines.len() {
                let mut j = i + 1;
                while j < lines.len() && !lines[j].starts_with("case") { j += 1; }
                let chunk = &lines[i..j];
                let fmt = fmt_of(&chunk[0]);
                let (ops, obs) = by_format!(fmt.as_str(), replay_format, &tmp, chunk);
                for o in obs { println!("{o}"); }
                all_ops.extend(ops);
                i = j;
            }
            // the requests are rewritten with the compressor's answers for the model
            std::fs::write(path, all_ops.join("\n") + "\n").unwrap();
            0
        }
        _ => { eprintln!("usage: harness vec gen|run …"); 2 }
    }
}
