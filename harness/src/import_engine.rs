//! import_diff (C14): the complete cross product {import, forced_import} × {import, forced_import} ×
//! version ∈ {v-1, v, v+1} × 5 formats × 5 formats, contents compared with the Lean `importVec`.
//!   imp <fmtC> <entryC> <verC> <fmtR> <entryR> <verR> <n>
//! answer: `<outcome of the reopen> | then <outcome of importing again with the creation parameters>`
//!   impc <fmt> <entryC> <entryR> <ver> <n>   (raw formats) — same version and format, but two stray bytes were appended to
//!   the data region behind the vector's back: the import must refuse (CorruptedRegion) and must NOT remove anything
//! answer: `<outcome of the reopen> | region <intact|changed|gone>`

use std::{
    io::Write as _,
    panic::{AssertUnwindSafe, catch_unwind},
};

use rawdb::Database;
use vecdb::{AnyStoredVec, AnyVec, BytesVec, Error, ImportableVec, LZ4Vec, PcoVec, ReadableVec, Version, WritableVec, ZeroCopyVec, ZstdVec};

use crate::common::*;

pub const FORMATS: &[&str] = &["bytes", "zc", "pco", "lz4", "zstd"];

fn open_len<V: ImportableVec + AnyVec + ReadableVec<usize, u64>>(db: &Database, forced: bool, ver: u32) -> Result<(usize, Vec<u64>), Error> {
    let v = if forced { V::forced_import(db, "v", Version::new(ver))? } else { V::import(db, "v", Version::new(ver))? };
    Ok((v.len(), v.collect()))
}

fn create<V: ImportableVec + WritableVec<usize, u64> + AnyStoredVec>(db: &Database, forced: bool, ver: u32, n: usize) -> Result<(), Error> {
    let mut v = if forced { V::forced_import(db, "v", Version::new(ver))? } else { V::import(db, "v", Version::new(ver))? };
    for i in 0..n { v.push(1000 + i as u64); }
    v.flush()?;
    Ok(())
}

macro_rules! by_fmt {
    ($f:expr, $fun:ident, $($a:expr),*) => { match $f {
        "bytes" => $fun::<BytesVec<usize, u64>>($($a),*),
        "zc" => $fun::<ZeroCopyVec<usize, u64>>($($a),*),
        "pco" => $fun::<PcoVec<usize, u64>>($($a),*),
        "lz4" => $fun::<LZ4Vec<usize, u64>>($($a),*),
        _ => $fun::<ZstdVec<usize, u64>>($($a),*),
    } };
}


/// every region of the database: (name, start, length, reserved), sorted by name
fn region_snapshot(db: &Database) -> Vec<(String, usize, usize, usize)> {
    let regs = db.regions();
    let mut v: Vec<(String, usize, usize, usize)> = regs.index_to_region().iter().flatten().map(|r| { let m = r.meta(); (m.id().to_string(), m.start(), m.len(), m.reserved()) }).collect();
    v.sort();
    v
}

/// C13: a refused import has no effect on any region
fn refused_import_effect(before: &[(String, usize, usize, usize)], after: &[(String, usize, usize, usize)], what: &str) -> Option<String> {
    if before == after { return None; }
    let extra: Vec<String> = after.iter().filter(|x| !before.contains(x)).map(|x| format!("{}@{} len {}", x.0, x.1, x.2)).collect();
    let gone: Vec<String> = before.iter().filter(|x| !after.contains(x)).map(|x| format!("{}@{} len {}", x.0, x.1, x.2)).collect();
    Some(format!("C13: the refused import ({what}) changed the regions of the database: new/changed [{}], gone/changed [{}]", extra.join(", "), gone.join(", ")))
}

fn outcome(r: &Result<(usize, Vec<u64>), Error>, had: usize, n: usize) -> String {
    match r {
        Ok((len, items)) => {
            let good = items.iter().enumerate().all(|(i, v)| *v == 1000 + i as u64);
            if had == 0 && *len == 0 { "fresh".into() }
            else if *len == n && good { format!("kept:{len}") }
            else if *len == 0 { "discarded".into() }
            else { format!("garbled:{len}") }
        }
        Err(Error::DifferentVersion { .. }) => "errVersion".into(),
        Err(Error::DifferentFormat { .. }) => "errFormat".into(),
        Err(e) => format!("err:{}", crate::vec_engine::err_name(e)),
    }
}


/// create, fill, flush, then append two stray bytes to the data region; returns (region id, region length afterwards)
fn create_corrupt<V: ImportableVec + WritableVec<usize, u64> + AnyStoredVec>(db: &Database, forced: bool, ver: u32, n: usize) -> Result<(String, usize), Error> {
    let mut v = if forced { V::forced_import(db, "v", Version::new(ver))? } else { V::import(db, "v", Version::new(ver))? };
    for i in 0..n { v.push(1000 + i as u64); }
    v.flush()?;
    let r = v.region().clone();
    r.write(&[0xAA, 0xBB])?;
    r.flush()?;
    let id = r.meta().id().to_string();
    let len = r.meta().len();
    Ok((id, len))
}

fn exec_corrupt(tmp: &std::path::Path, ws: &[&str]) -> String {
    let (f, ec, er, ver) = (ws[1], ws[2] == "forced", ws[3] == "forced", ws[4].parse::<u32>().unwrap());
    let n: usize = ws[5].parse().unwrap();
    let r = catch_unwind(AssertUnwindSafe(|| {
        let dir = tempfile::tempdir_in(tmp).unwrap();
        let db = Database::open(dir.path()).unwrap();
        let (id, len) = by_fmt!(f, create_corrupt, &db, ec, ver, n).unwrap();
        db.flush().unwrap();
        let before = region_snapshot(&db);
        let first = by_fmt!(f, open_len, &db, er, ver);
        let o1 = outcome(&first, n, n);
        drop(first);
        let c13 = if o1.starts_with("err") { refused_import_effect(&before, &region_snapshot(&db), &o1) } else { None };
        let region = match db.get_region(&id) {
            None => "gone",
            Some(r) => if r.meta().len() == len { "intact" } else { "changed" },
        };
        (o1, region.to_string(), c13)
    }));
    match r {
        Ok((o1, region, c13)) => {
            let mut fails = vec![];
            if let Some(m) = c13 { fails.push(m); }
            // created and reopened through the same entry point: the header matches, the only thing wrong is the length
            if ec == er {
                if o1 != "err:CorruptedRegion" { fails.push(format!("C14: same version and format, data region with stray bytes: {o1} instead of CorruptedRegion")); }
                if region != "intact" { fails.push(format!("C14: an import that found matching version and format left the data region {region}")); }
            }
            let o = if fails.is_empty() { "ok".to_string() } else { format!("fail:{}", fails.join("; ")) };
            format!("{o1} | region {region} | O {o}")
        }
        Err(_) => "panic | O fail:panic".into(),
    }
}

pub fn exec(tmp: &std::path::Path, line: &str) -> String {
    let ws: Vec<&str> = line.split_whitespace().collect();
    if ws.first() == Some(&"impc") { return exec_corrupt(tmp, &ws); }
    if ws.first() != Some(&"imp") { return line.to_string(); }
    let (fc, ec, vc, fr, er, vr) = (ws[1], ws[2] == "forced", ws[3].parse::<u32>().unwrap(), ws[4], ws[5] == "forced", ws[6].parse::<u32>().unwrap());
    let n: usize = ws[7].parse().unwrap();
    let r = catch_unwind(AssertUnwindSafe(|| {
        let dir = tempfile::tempdir_in(tmp).unwrap();
        let db = Database::open(dir.path()).unwrap();
        by_fmt!(fc, create, &db, ec, vc, n).unwrap();
        db.flush().unwrap();
        let before = region_snapshot(&db);
        let first = by_fmt!(fr, open_len, &db, er, vr);
        let o1 = outcome(&first, n, n);
        drop(first);
        let c13 = if o1.starts_with("err") { refused_import_effect(&before, &region_snapshot(&db), &o1) } else { None };
        // a stored vector without elements: "kept the empty one", "created" and "discarded" look the same — one name
        let o1 = if n == 0 && matches!(o1.as_str(), "kept:0" | "fresh" | "discarded") { "empty".to_string() } else { o1 };
        // what is stored now: n elements unless the reopen discarded them
        let had = if o1 == "discarded" { 0 } else { n };
        let second = by_fmt!(fc, open_len, &db, ec, vc);
        let o2 = match (&second, had) {
            (Ok((0, _)), 0) if o1 == "discarded" => {
                // stored by the forced reopen: an empty vector of the reopen's version/format
                outcome(&second, 0, n).replace("fresh", "kept:0")
            }
            _ => outcome(&second, had, n),
        };
        // an empty vector cannot tell "kept an empty one" from "discarded" from "created": one name
        let o2 = if matches!(o2.as_str(), "kept:0" | "discarded" | "fresh") { "empty".to_string() } else { o2 };
        (o1, o2, c13)
    }));
    match r {
        Ok((o1, o2, c13)) => {
            let same = vc == vr && fc == fr;
            let mut fails = vec![];
            if let Some(m) = c13 { fails.push(m); }
            let kept = if n == 0 { "empty".to_string() } else { format!("kept:{n}") };
            if same && o1 != kept { fails.push(format!("C14: same version and format, created through {} and reopened through {}: {o1} instead of the stored contents", ws[2], ws[5])); }
            if !same && !er && !(o1 == "errVersion" || o1 == "errFormat") { fails.push(format!("C14: plain import with a different version/format answered {o1}")); }
            if !same && !er && o2 != kept && (vc, fc) != (vr, fr) { fails.push(format!("C14: after a refused plain import the data is not intact: {o2}")); }
            if !same && er && o1 != "discarded" && !(n == 0 && o1 == "empty") { fails.push(format!("C14: forced import with a different version/format answered {o1}")); }
            let o = if fails.is_empty() { "ok".to_string() } else { format!("fail:{}", fails.join("; ")) };
            format!("{o1} | then {o2} | O {o}")
        }
        Err(_) => "panic | O fail:panic".into(),
    }
}

pub fn all_lines() -> Vec<String> {
    let mut v = vec![];
    for fc in FORMATS { for ec in ["plain", "forced"] { for fr in FORMATS { for er in ["plain", "forced"] { for dv in [0i32, 1, 2] {
        let n = if (fc.len() + fr.len() + dv as usize) % 2 == 0 { 10 } else { 2500 };
        v.push(format!("imp {fc} {ec} 5 {fr} {er} {} {n}", 4 + dv));
    } } } } }
    // the same table on a vector that was created and flushed but never filled (the region holds a header only)
    for fc in FORMATS { for ec in ["plain", "forced"] { for fr in FORMATS { for er in ["plain", "forced"] { for dv in [0i32, 1, 2] {
        v.push(format!("imp {fc} {ec} 5 {fr} {er} {} 0", 4 + dv));
    } } } } }
    for f in ["bytes", "zc"] { for ec in ["plain", "forced"] { for er in ["plain", "forced"] { for n in [3usize, 700] {
        v.push(format!("impc {f} {ec} {er} 5 {n}"));
    } } } }
    v
}

/// `harness import gen|run …` — `gen` enumerates the whole (finite) space, sharded by --first-case/--cases
pub fn main(args: &Args) -> i32 {
    quiet_panics();
    let tmp = std::path::PathBuf::from(args.get("--tmp").unwrap_or("/verif/.cache/tmp"));
    std::fs::create_dir_all(&tmp).unwrap();
    match args.0.get(1).map(|s| s.as_str()).unwrap_or("") {
        "gen" => {
            let all = all_lines();
            let cases = args.num("--cases", 1) as usize;
            let first = args.num("--first-case", 0) as usize;
            let total_cases = args.num("--total-cases", cases as u64) as usize;
            let per = all.len().div_ceil(total_cases.max(1));
            let mut ops_out = std::io::BufWriter::new(std::fs::File::create(args.get("--ops").unwrap()).unwrap());
            let mut impl_out = std::io::BufWriter::new(std::fs::File::create(args.get("--out").unwrap()).unwrap());
            for c in first..first + cases {
                writeln!(ops_out, "case {c}").unwrap();
                writeln!(impl_out, "case {c}").unwrap();
                for l in all.iter().skip(c * per).take(per) {
                    writeln!(ops_out, "{l}").unwrap();
                    writeln!(impl_out, "{}", exec(&tmp, l)).unwrap();
                }
            }
            0
        }
        "run" => {
            let text = std::fs::read_to_string(args.get("--ops").unwrap()).unwrap();
            for l in text.lines() { println!("{}", exec(&tmp, l)); }
            0
        }
        _ => { eprintln!("usage: harness import gen|run …"); 2 }
    }
}
