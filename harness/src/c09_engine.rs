//! c09 (C09): directed schedules of ONE writer appending to a vector (`push…; write()`) against readers that go
//! through a read-only clone (all range / point / fold paths, cursor) and, for the raw formats, a `VecReader`.
//!   mode w: the WRITER is parked at its k-th lock event, the reader battery runs, the writer is released;
//!   mode r: a READER (one `collect_range_at(0, ∞)` on the clone) is parked at its k-th lock event — in particular
//!           between loading the shared length and creating its rawdb Reader — while the writer performs a whole
//!           `write()` (in place, relocating, growing the file), then the reader is released.
//!   case <n> fmt=<format> sc=<scenario> mode=<w|r>
//!   sched <k> | <n0> <b> <kind> <L> <n> <bad>      (what the reader observed, appended for the driver)
//! answer: `<event> w=<0|1> | V <L> <n> <bad> | O <oracle>`
//! Oracle (model-free): the length a reader observes is n0 or n0+b and never decreases, every element below it is
//! readable and equals the value pushed at that index, no panic, nobody blocked for good; at the end the clone
//! reads the whole sequence.

use std::{io::Write as _, path::PathBuf, sync::{Arc, Mutex}};

use rawdb::Database;
use vecdb::{AnyStoredVec, AnyVec, BytesVec, ImportableVec, LZ4Vec, PcoVec, ReadableVec, StoredVec, Version, WritableVec, ZeroCopyVec, ZstdVec};

use crate::{common::*, dsched, vec_engine::Val};

pub const FORMATS: &[&str] = &["bytes_u64", "zc_u32", "pco_u64", "lz4_u64", "zstd_u32"];
pub const SCENARIOS: &[&str] = &["fits", "grow_last", "relocate", "page_cross", "page_boundary", "grow_file"];

fn f(i: usize) -> u64 { (i as u64).wrapping_mul(2654435761).wrapping_add(12345) }

#[derive(Clone, Debug, Default)]
pub struct Obs { len: usize, n: usize, bad: Option<usize>, extra: Vec<String> }

pub trait CV: Sized + Send + 'static {
    type T: Val + vecdb::VecValue;
    type RO: ReadableVec<usize, Self::T> + Clone + Send + Sync + 'static;
    const RAW: bool;
    fn open(db: &Database, name: &str) -> Self;
    fn push1(&mut self, v: Self::T);
    fn write1(&mut self) -> vecdb::Result<bool>;
    fn ro(&self) -> Self::RO;
    /// VecReader of the clone: (len, value at len-1)
    fn reader_probe(_ro: &Self::RO) -> Option<(usize, Option<u64>)> { None }
}

macro_rules! raw_cv {
    ($ty:ident, $t:ty) => {
        impl CV for $ty<usize, $t> {
            type T = $t;
            type RO = <$ty<usize, $t> as StoredVec>::ReadOnly;
            const RAW: bool = true;
            fn open(db: &Database, name: &str) -> Self { Self::forced_import(db, name, Version::new(1)).unwrap() }
            fn push1(&mut self, v: $t) { self.push(v) }
            fn write1(&mut self) -> vecdb::Result<bool> { self.write() }
            fn ro(&self) -> Self::RO { StoredVec::read_only_clone(self) }
            fn reader_probe(ro: &Self::RO) -> Option<(usize, Option<u64>)> {
                let r = ro.reader();
                let n = r.len();
                Some((n, if n > 0 { r.try_get(n - 1).map(|v| v.to_u64()) } else { None }))
            }
        }
    };
}
macro_rules! comp_cv {
    ($ty:ident, $t:ty) => {
        impl CV for $ty<usize, $t> {
            type T = $t;
            type RO = <$ty<usize, $t> as StoredVec>::ReadOnly;
            const RAW: bool = false;
            fn open(db: &Database, name: &str) -> Self { Self::forced_import(db, name, Version::new(1)).unwrap() }
            fn push1(&mut self, v: $t) { self.push(v) }
            fn write1(&mut self) -> vecdb::Result<bool> { self.write() }
            fn ro(&self) -> Self::RO { StoredVec::read_only_clone(self) }
        }
    };
}
raw_cv!(BytesVec, u64);
raw_cv!(ZeroCopyVec, u32);
comp_cv!(PcoVec, u64);
comp_cv!(LZ4Vec, u64);
comp_cv!(ZstdVec, u32);

fn val<T: Val>(i: usize) -> T { T::from_u64(f(i)) }
fn want<T: Val>(i: usize) -> u64 { T::from_u64(f(i)).to_u64() }

/// the reader battery on a clone: every path must see a prefix of the writer's sequence
fn battery<V: CV>(ro: &V::RO) -> Obs {
    let mut o = Obs::default();
    let l = ro.len();
    o.len = l;
    let vals = ro.collect_range_at(0, l);
    o.n = vals.len();
    o.bad = vals.iter().enumerate().position(|(i, v)| v.to_u64() != want::<V::T>(i));
    let mut note = |s: String| { if o.extra.len() < 3 { o.extra.push(s); } };
    for i in [0usize, l / 2, l.saturating_sub(1)] {
        if i < l {
            match ro.collect_one_at(i) {
                Some(v) if v.to_u64() == want::<V::T>(i) => {}
                other => note(format!("collect_one_at({i}) = {:?} below the observed length {l}", other.map(|v| v.to_u64()))),
            }
        }
    }
    let cnt = ro.fold_range_at(0, l, 0usize, |acc, _v: V::T| acc + 1);
    if cnt != l { note(format!("fold_range_at(0,{l}) visited {cnt} elements")); }
    let mut p = vec![]; ro.read_into_at(0, l, &mut p);
    if p.len() != l || p.iter().enumerate().any(|(i, v)| v.to_u64() != want::<V::T>(i)) { note(format!("read_into_at(0,{l}) returned {} elements / a wrong value", p.len())); }
    if l > 0 {
        let mut c = ro.cursor();
        match c.get(l - 1) { Some(v) if v.to_u64() == want::<V::T>(l - 1) => {}, other => note(format!("cursor().get({}) = {:?}", l - 1, other.map(|v| v.to_u64()))) }
    }
    if let Some((rl, last)) = V::reader_probe(ro) {
        if rl < l { note(format!("VecReader::len() = {rl} after len() = {l}: lengths went down")); }
        if rl > 0 && last != Some(want::<V::T>(rl - 1)) { note(format!("VecReader::try_get({}) = {last:?}", rl - 1)); }
    }
    o
}

struct Prep<V: CV> { _dir: tempfile::TempDir, db: Database, vec: V, ro: V::RO, n0: usize, b: usize, kind: &'static str }

fn prepare<V: CV>(tmp: &std::path::Path, sc: &str) -> Prep<V> {
    let dir = tempfile::tempdir_in(tmp).unwrap();
    let db = Database::open(dir.path()).unwrap();
    let pp = 16 * 1024 / V::T::SZ;
    let (n0, b, neighbour): (usize, usize, bool) = match sc {
        "fits" => (100, 10, false),
        "grow_last" => (4000 / V::T::SZ, 2000 / V::T::SZ, false),
        "relocate" => (4000 / V::T::SZ, 2000 / V::T::SZ, true),
        "page_cross" => (pp - 50, 100, false),
        "page_boundary" => (pp, 100, false),
        _ => (((1 << 20) / V::T::SZ / pp - 1) * pp + if V::RAW { pp - 200 } else { 0 }, 400, true), // grow_file: the region crosses 1 MiB; compressed: from a page boundary
    };
    let mut vec = V::open(&db, "v");
    for i in 0..n0 { vec.push1(val::<V::T>(i)); }
    vec.write1().unwrap();
    if neighbour {
        // something behind the vector's regions, so that growth has to relocate
        let r = db.create_region_if_needed("behind").unwrap();
        r.write(&[7u8; 100]).unwrap();
    }
    let ro = vec.ro();
    let kind = match (V::RAW, sc) {
        (true, "relocate") | (true, "grow_file") => "raw-reloc",
        (true, _) => "raw-inplace",
        (false, "page_cross") => "comp-rewrite",
        (false, "page_boundary") => "comp-append",
        (false, "grow_file") => "comp-append",
        (false, _) => "comp-extend",
    };
    Prep { _dir: dir, db, vec, ro, n0, b, kind }
}

fn schedule_fmt<V: CV>(ctl: &Arc<dsched::Ctl>, tmp: &std::path::Path, sc: &str, mode: &str, k: u64) -> (String, String, Vec<String>) {
    let p = prepare::<V>(tmp, sc);
    let Prep { _dir, db, mut vec, ro, n0, b, kind } = p;
    let obs: Arc<Mutex<Obs>> = Arc::new(Mutex::new(Obs::default()));
    let werr: Arc<Mutex<Option<String>>> = Arc::new(Mutex::new(None));
    // the writer's vector lives until the schedule is over: it is handed back through this slot
    let stash: Arc<Mutex<Option<V>>> = Arc::new(Mutex::new(None));
    let writer = { let werr = werr.clone(); let stash = stash.clone(); Box::new(move || {
        for i in n0..n0 + b { vec.push1(val::<V::T>(i)); }
        if let Err(e) = vec.write1() { *werr.lock().unwrap() = Some(format!("{e:?}")); }
        *stash.lock().unwrap() = Some(vec);
    }) as Box<dyn FnOnce() + Send + 'static> };
    let reader = { let ro = ro.clone(); let obs = obs.clone(); Box::new(move || {
        if mode_is_r(&obs) {
            // one long read that loads the length first and then snapshots the region
            let vals = ro.collect_range_at(0, usize::MAX >> 1);
            let mut o = Obs { len: vals.len(), n: vals.len(), ..Obs::default() };
            o.bad = vals.iter().enumerate().position(|(i, v)| v.to_u64() != want::<V::T>(i));
            // … then the iterator-style and the point read paths of the clone (their own lock sections): a later read never
            // sees fewer elements, and none of them may block for good against the writer
            let cnt = ro.fold_range_at(0, usize::MAX >> 1, 0usize, |n, _v| n + 1);
            let first = ro.collect_one_at(0).map(|v| v.to_u64());
            let mut extra = vec!["r".to_string()];
            if cnt < o.len { extra.push(format!("fold_range_at saw {cnt} elements after a read of {}: lengths went down", o.len)); }
            if o.len > 0 && first != Some(want::<V::T>(0)) { extra.push(format!("collect_one_at(0) = {first:?} after a read of {} elements", o.len)); }
            o.extra = extra;
            *obs.lock().unwrap() = o;
        } else {
            *obs.lock().unwrap() = battery::<V>(&ro);
        }
    }) as Box<dyn FnOnce() + Send + 'static> };
    obs.lock().unwrap().extra = vec![mode.to_string()];
    let out = if mode == "w" { dsched::run(ctl, k, writer, reader) } else { dsched::run(ctl, k, reader, writer) };
    let mut fails: Vec<String> = vec![];
    if let Some(who) = out.hung {
        return (format!("sched {k} | {n0} {b} {kind} - - -"), format!("hung | V - - - | O fail:C09: {who} did not return within 20 s (parked at {:?})", out.parked_at), out.trace.clone());
    }
    if out.subject_panicked || out.script_panicked { fails.push(format!("C09: a {} panicked (parked at {:?}, scenario {sc})", if (mode == "w") == out.subject_panicked { "writer" } else { "reader" }, out.parked_at)); }
    if let Some(e) = werr.lock().unwrap().clone() { fails.push(format!("C09: the writer's write() failed: {e}")); }
    let o = obs.lock().unwrap().clone();
    if !(out.subject_panicked || out.script_panicked) {
        if o.len != n0 && o.len != n0 + b { fails.push(format!("C09: a reader observed length {} (stored before: {n0}, after: {})", o.len, n0 + b)); }
        if o.n != o.len { fails.push(format!("C09: a reader observed length {} but only {} elements below it were readable", o.len, o.n)); }
        if let Some(i) = o.bad { fails.push(format!("C09: element {i} read by a reader differs from the value pushed at that index (observed length {})", o.len)); }
        for e in o.extra.iter().filter(|e| e.len() > 1) { fails.push(format!("C09: {e}")); }
        // afterwards: the whole sequence, and the length did not go down
        let fin = battery::<V>(&ro);
        if fin.len != n0 + b || fin.n != n0 + b || fin.bad.is_some() { fails.push(format!("C09: after the write the clone reads {} of {} elements (first wrong: {:?})", fin.n, n0 + b, fin.bad)); }
        if fin.len < o.len { fails.push(format!("C09: observed length went down from {} to {}", o.len, fin.len)); }
    }
    drop(stash);
    drop(db);
    let v = format!("{} {} {}", o.len, o.n, o.bad.map(|x| x.to_string()).unwrap_or("-".into()));
    let oo = if fails.is_empty() { "ok".to_string() } else { fails.truncate(3); format!("fail:{}", fails.join(", ")) };
    (format!("sched {k} | {n0} {b} {kind} {v}"), format!("{} w={} | V {v} | O {oo}", out.parked_at.clone().unwrap_or("-".into()), out.script_waited as u8), out.trace.clone())
}

fn mode_is_r(obs: &Arc<Mutex<Obs>>) -> bool { obs.lock().unwrap().extra.first().map(|s| s == "r").unwrap_or(false) }

pub fn schedule(ctl: &Arc<dsched::Ctl>, tmp: &std::path::Path, fmt: &str, sc: &str, mode: &str, k: u64) -> (String, String, Vec<String>) {
    match fmt {
        "bytes_u64" => schedule_fmt::<BytesVec<usize, u64>>(ctl, tmp, sc, mode, k),
        "zc_u32" => schedule_fmt::<ZeroCopyVec<usize, u32>>(ctl, tmp, sc, mode, k),
        "pco_u64" => schedule_fmt::<PcoVec<usize, u64>>(ctl, tmp, sc, mode, k),
        "lz4_u64" => schedule_fmt::<LZ4Vec<usize, u64>>(ctl, tmp, sc, mode, k),
        _ => schedule_fmt::<ZstdVec<usize, u32>>(ctl, tmp, sc, mode, k),
    }
}

pub fn triples() -> Vec<(String, String, String)> {
    let mut v = vec![];
    for fmt in FORMATS { for sc in SCENARIOS { for mode in ["w", "r"] {
        let raw = fmt.starts_with("bytes") || fmt.starts_with("zc");
        if raw && (*sc == "page_cross" || *sc == "page_boundary") { continue; }
        v.push((fmt.to_string(), sc.to_string(), mode.to_string()));
    } } }
    v
}

/// `harness c09 gen|run …`
pub fn main(args: &Args) -> i32 {
    quiet_panics();
    let tmp = PathBuf::from(args.get("--tmp").unwrap_or("/verif/.cache/tmp"));
    std::fs::create_dir_all(&tmp).unwrap();
    let ctl = dsched::Ctl::install();
    match args.0.get(1).map(|s| s.as_str()).unwrap_or("") {
        "gen" => {
            let all = triples();
            let cases = args.num("--cases", 1) as usize;
            let first = args.num("--first-case", 0) as usize;
            let stride = args.num("--len", 1).max(1);
            let mut ops_out = std::io::BufWriter::new(std::fs::File::create(args.get("--ops").unwrap()).unwrap());
            let mut impl_out = std::io::BufWriter::new(std::fs::File::create(args.get("--out").unwrap()).unwrap());
            for c in first..first + cases {
                let Some((fmt, sc, mode)) = all.get(c % all.len()) else { continue };
                let head = format!("case {c} fmt={fmt} sc={sc} mode={mode}");
                writeln!(ops_out, "{head}").unwrap();
                writeln!(impl_out, "{head}").unwrap();
                let (l0, o0, n) = schedule(&ctl, &tmp, fmt, sc, mode, 0);
                writeln!(ops_out, "{l0}").unwrap();
                writeln!(impl_out, "{o0}").unwrap();
                // every `stride`-th event, plus every point at which the subject is about to take a write lock or has just
                // finished copying data (the windows between two of its effects)
                let off = 1 + args.num("--seed", 1) % stride;
                let ks: Vec<u64> = (1..=n.len() as u64).filter(|k| (*k >= off && (*k - off) % stride == 0) || n[*k as usize - 1].starts_with("req:W:") || n[*k as usize - 1] == "rel:R:MmapMut").collect();
                for k in ks {
                    let (l, o, _) = schedule(&ctl, &tmp, fmt, sc, mode, k);
                    writeln!(ops_out, "{l}").unwrap();
                    writeln!(impl_out, "{o}").unwrap();
                }
            }
            0
        }
        "run" => {
            let path = args.get("--ops").unwrap();
            let text = std::fs::read_to_string(path).unwrap();
            let mut cur: Option<(String, String, String)> = None;
            let mut rewritten = vec![];
            for l in text.lines() {
                let ws: Vec<&str> = l.split_whitespace().collect();
                if ws.first() == Some(&"case") {
                    let kv = |k: &str| ws.iter().find_map(|w| w.strip_prefix(&format!("{k}="))).unwrap_or("").to_string();
                    cur = Some((kv("fmt"), kv("sc"), kv("mode")));
                    println!("{l}");
                    rewritten.push(l.to_string());
                } else if ws.first() == Some(&"sched") {
                    let (fmt, sc, mode) = cur.clone().unwrap_or(("bytes_u64".into(), "fits".into(), "w".into()));
                    let (l2, o, _) = schedule(&ctl, &tmp, &fmt, &sc, &mode, ws[1].parse().unwrap_or(0));
                    println!("{o}");
                    rewritten.push(l2);
                } else { println!("bad-op"); rewritten.push(l.to_string()); }
            }
            std::fs::write(path, rewritten.join("\n") + "\n").unwrap();
            0
        }
        _ => { eprintln!("usage: harness c09 gen|run …"); 2 }
    }
}
